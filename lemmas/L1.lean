import Mathlib.Logic.Relation

/-- L1: a set that contains `c` and is closed under `parent` contains every ancestor-or-self of `c`.
`anc x c` is the reflexive-transitive closure of "x is a parent of y" read from c upwards. -/
theorem L1 {α : Type} (parent : α → α → Prop) (S : α → Prop) (c : α)
    (hc : S c) (hclosed : ∀ y p, S y → parent y p → S p) :
    ∀ x, Relation.ReflTransGen parent c x → S x := by
  intro x h
  induction h with
  | refl => exact hc
  | tail _ hstep ih => exact hclosed _ _ ih hstep
