package main

import (
	"fmt"
	"math/big"
	"strings"
)

// SMT terms are plain strings in SMT-LIB2 concrete syntax. Helpers below do
// light constant folding so that generated files stay readable.

const (
	T = "true"
	F = "false"
)

func app(op string, args ...string) string {
	return "(" + op + " " + strings.Join(args, " ") + ")"
}

func isNum(s string) (*big.Int, bool) {
	if s == "" {
		return nil, false
	}
	if strings.HasPrefix(s, "(- ") && strings.HasSuffix(s, ")") {
		n, ok := new(big.Int).SetString(s[3:len(s)-1], 10)
		if !ok {
			return nil, false
		}
		return n.Neg(n), true
	}
	if s[0] < '0' || s[0] > '9' {
		return nil, false
	}
	n, ok := new(big.Int).SetString(s, 10)
	return n, ok
}

func num(n *big.Int) string {
	if n.Sign() < 0 {
		return "(- " + new(big.Int).Neg(n).String() + ")"
	}
	return n.String()
}

func numI(n int64) string { return num(big.NewInt(n)) }

func pow2(w uint) *big.Int { return new(big.Int).Lsh(big.NewInt(1), w) }

func And(xs ...string) string {
	var out []string
	seen := map[string]bool{}
	for _, x := range xs {
		if x == T || x == "" {
			continue
		}
		if x == F {
			return F
		}
		if seen[x] {
			continue
		}
		seen[x] = true
		out = append(out, x)
	}
	switch len(out) {
	case 0:
		return T
	case 1:
		return out[0]
	}
	return app("and", out...)
}

func Or(xs ...string) string {
	var out []string
	seen := map[string]bool{}
	for _, x := range xs {
		if x == F || x == "" {
			continue
		}
		if x == T {
			return T
		}
		if seen[x] {
			continue
		}
		seen[x] = true
		out = append(out, x)
	}
	switch len(out) {
	case 0:
		return F
	case 1:
		return out[0]
	}
	return app("or", out...)
}

func Not(x string) string {
	switch x {
	case T:
		return F
	case F:
		return T
	}
	if strings.HasPrefix(x, "(not ") {
		return x[5 : len(x)-1]
	}
	return app("not", x)
}

func Imp(a, b string) string {
	if a == T {
		return b
	}
	if a == F || b == T {
		return T
	}
	if b == F {
		return Not(a)
	}
	return app("=>", a, b)
}

func Ite(c, a, b string) string {
	if c == T {
		return a
	}
	if c == F {
		return b
	}
	if a == b {
		return a
	}
	return app("ite", c, a, b)
}

func Eq(a, b string) string {
	if a == b {
		return T
	}
	if x, ok := isNum(a); ok {
		if y, ok := isNum(b); ok {
			if x.Cmp(y) == 0 {
				return T
			}
			return F
		}
	}
	if (a == T && b == F) || (a == F && b == T) {
		return F
	}
	return app("=", a, b)
}

func Ne(a, b string) string { return Not(Eq(a, b)) }

func arith(op string, a, b string) string {
	x, ok1 := isNum(a)
	y, ok2 := isNum(b)
	if ok1 && ok2 {
		switch op {
		case "+":
			return num(new(big.Int).Add(x, y))
		case "-":
			return num(new(big.Int).Sub(x, y))
		case "*":
			return num(new(big.Int).Mul(x, y))
		}
	}
	if op == "+" {
		if ok1 && x.Sign() == 0 {
			return b
		}
		if ok2 && y.Sign() == 0 {
			return a
		}
	}
	if op == "-" && ok2 && y.Sign() == 0 {
		return a
	}
	if op == "*" {
		if ok1 && x.Cmp(big.NewInt(1)) == 0 {
			return b
		}
		if ok2 && y.Cmp(big.NewInt(1)) == 0 {
			return a
		}
	}
	return app(op, a, b)
}

func Add(a, b string) string { return arith("+", a, b) }
func Sub(a, b string) string { return arith("-", a, b) }
func Mul(a, b string) string { return arith("*", a, b) }

func cmp(op string, a, b string) string {
	x, ok1 := isNum(a)
	y, ok2 := isNum(b)
	if ok1 && ok2 {
		c := x.Cmp(y)
		var r bool
		switch op {
		case "<":
			r = c < 0
		case "<=":
			r = c <= 0
		case ">":
			r = c > 0
		case ">=":
			r = c >= 0
		}
		if r {
			return T
		}
		return F
	}
	return app(op, a, b)
}

func Lt(a, b string) string { return cmp("<", a, b) }
func Le(a, b string) string { return cmp("<=", a, b) }
func Gt(a, b string) string { return cmp(">", a, b) }
func Ge(a, b string) string { return cmp(">=", a, b) }

func Sel(a, i string) string      { return app("select", a, i) }
func Sto(a, i, v string) string   { return app("store", a, i, v) }
func InRange(lo, x, hi string) string { return And(Le(lo, x), Lt(x, hi)) } // lo <= x < hi

// euclidean div/mod as in SMT-LIB; Go's truncated division is built on top in exec.go
func Mod(a, b string) string {
	x, ok1 := isNum(a)
	y, ok2 := isNum(b)
	if ok1 && ok2 && y.Sign() > 0 {
		return num(new(big.Int).Mod(x, y))
	}
	return app("mod", a, b)
}
func Div(a, b string) string {
	x, ok1 := isNum(a)
	y, ok2 := isNum(b)
	if ok1 && ok2 && y.Sign() > 0 && x.Sign() >= 0 {
		return num(new(big.Int).Div(x, y))
	}
	return app("div", a, b)
}

func sanitize(s string) string {
	var b strings.Builder
	for _, r := range s {
		switch {
		case r >= 'a' && r <= 'z', r >= 'A' && r <= 'Z', r >= '0' && r <= '9', r == '_':
			b.WriteRune(r)
		case r == '.' || r == '/':
			b.WriteByte('_')
		case r == '*':
			b.WriteString("p_")
		case r == '[':
			b.WriteString("s_")
		default:
			fmt.Fprintf(&b, "_%x", r)
		}
	}
	return b.String()
}

// symbols returns the set of non-keyword symbols occurring in an SMT term.
func symbols(t string, into map[string]bool) {
	i := 0
	n := len(t)
	for i < n {
		c := t[i]
		if c == '(' || c == ')' || c == ' ' || c == '\n' || c == '\t' {
			i++
			continue
		}
		if c == '|' {
			j := i + 1
			for j < n && t[j] != '|' {
				j++
			}
			into[t[i:j+1]] = true
			i = j + 1
			continue
		}
		j := i
		for j < n && t[j] != '(' && t[j] != ')' && t[j] != ' ' && t[j] != '\n' && t[j] != '\t' {
			j++
		}
		tok := t[i:j]
		if !(tok[0] >= '0' && tok[0] <= '9') {
			into[tok] = true
		}
		i = j
	}
}
