package main

import (
	"flag"
	"fmt"
	"os"
	"path/filepath"
	"strings"
	"sync"
	"time"
)

func main() {
	if len(os.Args) < 2 {
		fmt.Fprintln(os.Stderr, "usage: govc verify|check|dump ...")
		os.Exit(2)
	}
	switch os.Args[1] {
	case "verify":
		cmdVerify(os.Args[2:])
	case "check":
		cmdCheck(os.Args[2:])
	default:
		fmt.Fprintln(os.Stderr, "unknown command", os.Args[1])
		os.Exit(2)
	}
}

func mkScratch() string {
	base := os.Getenv("VERIF_SCRATCH")
	if base == "" {
		base = "/var/tmp"
	}
	d, err := os.MkdirTemp(base, "govc.")
	if err != nil {
		panic(err)
	}
	return d
}

type FuncReport struct {
	Key      string
	Err      error
	VC       *VC
	Results  []SolveResult
	GenSecs  float64
}

func verifyOne(w *World, con *Contract, dir string, timeout time.Duration, filter func(*Obl) bool) *FuncReport {
	rep := &FuncReport{Key: con.FullKey()}
	fn, ok := w.Funcs[con.FullKey()]
	if !ok {
		rep.Err = fmt.Errorf("function %s not found in /repo", con.FullKey())
		return rep
	}
	t0 := time.Now()
	vc := newVC(w, fn, con)
	rep.VC = vc
	if err := vc.verifyFunction(); err != nil {
		rep.Err = err
		return rep
	}
	rep.GenSecs = time.Since(t0).Seconds()
	return rep
}

// solveReports discharges the obligations of all reports through one pool of workers.
func solveReports(reps []*FuncReport, dir string, timeout time.Duration, par int) {
	sem := make(chan struct{}, par)
	var wg sync.WaitGroup
	for _, rep := range reps {
		if rep.Err != nil || rep.VC == nil {
			continue
		}
		rep := rep
		vc := rep.VC
		rep.Results = make([]SolveResult, len(vc.obls))
		sub := filepath.Join(dir, sanitize(rep.Key))
		os.MkdirAll(sub, 0o755)
		for i, o := range vc.obls {
			if (o.Goal == T && o.Expect != "sat") || o.PC == F {
				rep.Results[i] = SolveResult{Status: "unsat", Solver: "syntactic"}
				continue
			}
			wg.Add(1)
			go func(i int, o *Obl) {
				defer wg.Done()
				sem <- struct{}{}
				defer func() { <-sem }()
				emitMu.Lock()
				file, n, err := vc.emit(o, sub, i)
				emitMu.Unlock()
				if err != nil {
					rep.Results[i] = SolveResult{Status: "unknown", Output: err.Error()}
					return
				}
				to := timeout
				if o.Expect == "sat" && to > 2*time.Second {
					to = 2 * time.Second // vacuity: only a quick "unsat" matters
				}
				r := raceWith(firstPass, file, to)
				r.Bytes = n
				if r.Status != "unsat" && r.Status != "sat" && o.Expect != "sat" && !skipRetry[shortKey(rep.Key)+":"+o.Name] && (strings.Contains(o.Goal, "(forall ") || strings.Contains(o.Goal, "(exists ")) {
					// second formulation of a quantified goal (see emitVariant)
					emitMu.Lock()
					file2, n2, err2 := vc.emitVariant(o, sub, i, 1)
					emitMu.Unlock()
					if err2 == nil {
						r2 := raceWith(firstPass, file2, to)
						if r2.Status == "unsat" {
							r2.Bytes = n2
							r2.Solver += " (plain goal)"
							r = r2
						}
					}
				}
				rep.Results[i] = r
			}(i, o)
		}
	}
	wg.Wait()
	// second pass: anything not discharged is retried almost alone with three times the timeout, so that a loaded machine
	// cannot turn a provable obligation into an alarm
	sem2 := make(chan struct{}, 1)
	if os.Getenv("GOVC_NORETRY") != "" {
		// development aid only (never set by vcheck): skip the slow second pass
		return
	}
	for _, rep := range reps {
		if rep.Err != nil || rep.VC == nil {
			continue
		}
		rep := rep
		for i, o := range rep.VC.obls {
			if o.Expect == "sat" || rep.Results[i].Status == "unsat" || rep.Results[i].Status == "sat" || rep.Results[i].File == "" {
				continue
			}
			if skipRetry[shortKey(rep.Key)+":"+o.Name] {
				continue
			}
			wg.Add(1)
			go func(i int) {
				defer wg.Done()
				sem2 <- struct{}{}
				defer func() { <-sem2 }()
				r := raceWith(retrySolvers, rep.Results[i].File, 4*timeout)
				r.Bytes = rep.Results[i].Bytes
				if r.Status == "unsat" || r.Status == "sat" {
					r.Solver += " (retry)"
					rep.Results[i] = r
				}
			}(i)
		}
	}
	wg.Wait()
}

var emitMu sync.Mutex

// skipRetry: full names (func:obligation) of obligations that get no second pass (open known findings)
var skipRetry map[string]bool

func solveAll(rep *FuncReport, dir string, timeout time.Duration, par int) {
	solveReports([]*FuncReport{rep}, dir, timeout, par)
}

func cmdVerify(args []string) {
	fs := flag.NewFlagSet("verify", flag.ExitOnError)
	repo := fs.String("repo", "/repo", "repository")
	spec := fs.String("spec", "/verif/spec", "assumed contracts")
	fn := fs.String("func", "", "substring of the function key (all contracts when empty)")
	to := fs.Int("timeout", 10, "solver timeout (s)")
	keep := fs.Bool("keep", false, "keep scratch dir")
	verbose := fs.Bool("v", false, "verbose")
	fs.Parse(args)
	scratch := mkScratch()
	if !*keep {
		defer os.RemoveAll(scratch)
	} else {
		fmt.Println("scratch:", scratch)
	}
	pats := fs.Args()
	if len(pats) == 0 {
		pats = []string{"./pkg/...", "./cmd/..."}
	}
	t0 := time.Now()
	w, err := loadWorld(*repo, *spec, scratch, pats)
	if err != nil {
		fmt.Fprintln(os.Stderr, "load:", err)
		os.Exit(2)
	}
	fmt.Printf("loaded in %.1fs, %d contracts\n", time.Since(t0).Seconds(), len(w.DB.Order))
	bad := 0
	for _, con := range w.DB.Order {
		if con.Trusted {
			continue
		}
		if *fn != "" && !strings.Contains(con.FullKey(), *fn) {
			continue
		}
		rep := verifyOne(w, con, scratch, time.Duration(*to)*time.Second, nil)
		if rep.Err != nil {
			fmt.Printf("%-60s ERROR %v\n", con.FullKey(), rep.Err)
			bad++
			continue
		}
		solveAll(rep, scratch, time.Duration(*to)*time.Second, 16)
		ok := 0
		for i, o := range rep.VC.obls {
			r := rep.Results[i]
			good := (o.Expect == "sat" && r.Status == "sat") || (o.Expect != "sat" && r.Status == "unsat")
			if good {
				ok++
			}
			if !good || *verbose {
				fmt.Printf("   %-28s %-8s %-8s %5.2fs %s:%d  %s\n", o.Name, r.Status, r.Solver, r.Secs, filepath.Base(o.Pos.Filename), o.Pos.Line, o.Note)
			}
			if !good {
				bad++
			}
		}
		fmt.Printf("%-60s %d/%d obligations (gen %.2fs) inlined=%v havocked=%v\n", con.FullKey(), ok, len(rep.VC.obls), rep.GenSecs, sortedKeys(rep.VC.inlined), sortedKeys(rep.VC.havocked))
	}
	if bad > 0 {
		os.Exit(1)
	}
}

