package main

import (
	"fmt"
	"go/types"
	"math/big"
	"strings"

	"golang.org/x/tools/go/ssa"
)

type Kind int

const (
	KInt Kind = iota // any value coded as one SMT Int: integers, strings (id), pointers, interfaces, maps, chans, arrays (region id), opaque structs
	KBool
	KSlice
	KStruct
	KTuple
	KAddr // address of a local cell, struct field or slice element (never stored in the heap)
	KFunc // statically known function or closure
	KUnit
)

type AddrKind int

const (
	ALocal AddrKind = iota
	AField
	AElem
	ABox // pointer to a non-struct cell in the P heap
)

type Addr struct {
	Kind  AddrKind
	Alloc *ssa.Alloc // ALocal
	Obj   string     // AField/ABox: object id
	Root  types.Type // AField: struct type the path starts at
	Path  []int      // AField: field index path
	Reg   string     // AElem
	Idx   string     // AElem (absolute index into region)
	T     types.Type // type of the cell addressed
}

type Val struct {
	K   Kind
	T   types.Type
	S   string // KInt / KBool
	Reg string // KSlice
	Off string
	Len string
	Cap string
	Fs  []Val // KStruct / KTuple
	A   *Addr
	Fn  *ssa.Function
	Fr  []Val // closure bindings
	Str bool  // spec-level: value is a string id
	Dyn types.Type // interface values: static type of the boxed operand when known
}

func IntV(s string, t types.Type) Val  { return Val{K: KInt, S: s, T: t} }
func BoolV(s string) Val               { return Val{K: KBool, S: s, T: types.Typ[types.Bool]} }
func SliceV(r, o, l, c string, t types.Type) Val {
	return Val{K: KSlice, Reg: r, Off: o, Len: l, Cap: c, T: t}
}

func (v Val) String() string {
	switch v.K {
	case KInt, KBool:
		return v.S
	case KSlice:
		return fmt.Sprintf("slice(%s,%s,%s,%s)", v.Reg, v.Off, v.Len, v.Cap)
	case KStruct, KTuple:
		var p []string
		for _, f := range v.Fs {
			p = append(p, f.String())
		}
		return "{" + strings.Join(p, ", ") + "}"
	case KAddr:
		return fmt.Sprintf("addr(%d)", v.A.Kind)
	case KFunc:
		return "func " + v.Fn.String()
	}
	return "unit"
}

// comps flattens a value to its scalar SMT components, in a fixed order.
func (v Val) comps() []string {
	switch v.K {
	case KInt, KBool:
		return []string{v.S}
	case KSlice:
		return []string{v.Reg, v.Off, v.Len, v.Cap}
	case KStruct, KTuple:
		var out []string
		for _, f := range v.Fs {
			out = append(out, f.comps()...)
		}
		return out
	case KUnit:
		return nil
	}
	panic(unsupported("value of kind %d has no SMT components", v.K))
}

// Unsupported is raised (as a panic) when a function leaves the subset.
type Unsupported struct{ Msg string }

func (u Unsupported) Error() string { return u.Msg }
func unsupported(f string, a ...interface{}) Unsupported {
	return Unsupported{fmt.Sprintf(f, a...)}
}

// comp describes one scalar component of a flattened type.
type comp struct {
	Suffix string
	Sort   string // Int | Bool
	Ref    bool   // the component is an object/region id (never exceeds the allocation counter)
}

func isOpaqueNamed(t types.Type) bool {
	n, ok := t.(*types.Named)
	if !ok {
		return false
	}
	if n.Obj().Pkg() == nil {
		return false
	}
	p := n.Obj().Pkg().Path()
	if strings.HasPrefix(p, "github.com/wrgl/wrgl") {
		return false
	}
	// external named struct types are opaque ids (time.Time, sync.Mutex, bytes.Buffer, list.List ...)
	_, isStruct := n.Underlying().(*types.Struct)
	return isStruct
}

func typeKey(t types.Type) string {
	switch u := t.(type) {
	case *types.Named:
		if _, ok := u.Underlying().(*types.Struct); ok {
			p := ""
			if u.Obj().Pkg() != nil {
				p = u.Obj().Pkg().Path() + "."
			}
			return sanitize(p + u.Obj().Name())
		}
		return typeKey(u.Underlying())
	case *types.Alias:
		return typeKey(types.Unalias(u))
	case *types.Basic:
		switch u.Kind() {
		case types.Uint8:
			return "u8"
		}
		return u.Name()
	case *types.Pointer:
		return "p_" + typeKey(u.Elem())
	case *types.Slice:
		return "s_" + typeKey(u.Elem())
	case *types.Array:
		return fmt.Sprintf("a%d_%s", u.Len(), typeKey(u.Elem()))
	case *types.Map:
		return "m_" + typeKey(u.Key()) + "_" + typeKey(u.Elem())
	case *types.Interface:
		return "iface"
	case *types.Chan:
		return "ch_" + typeKey(u.Elem())
	case *types.Signature:
		return "func"
	case *types.Struct:
		return sanitize(u.String())
	}
	return sanitize(t.String())
}

func flatten(t types.Type) []comp {
	if isOpaqueNamed(t) {
		return []comp{{"", "Int", false}}
	}
	switch u := t.Underlying().(type) {
	case *types.Basic:
		if u.Info()&types.IsBoolean != 0 {
			return []comp{{"", "Bool", false}}
		}
		return []comp{{"", "Int", false}}
	case *types.Slice:
		return []comp{{"_reg", "Int", true}, {"_off", "Int", false}, {"_len", "Int", false}, {"_cap", "Int", false}}
	case *types.Struct:
		var out []comp
		for i := 0; i < u.NumFields(); i++ {
			for _, c := range flatten(u.Field(i).Type()) {
				out = append(out, comp{"_" + sanitize(u.Field(i).Name()) + c.Suffix, c.Sort, c.Ref})
			}
		}
		return out
	case *types.Tuple:
		var out []comp
		for i := 0; i < u.Len(); i++ {
			for _, c := range flatten(u.At(i).Type()) {
				out = append(out, comp{fmt.Sprintf("_%d%s", i, c.Suffix), c.Sort, c.Ref})
			}
		}
		return out
	}
	switch t.Underlying().(type) {
	case *types.Pointer, *types.Map, *types.Chan, *types.Array:
		return []comp{{"", "Int", true}}
	}
	return []comp{{"", "Int", false}}
}

// rebuild constructs a Val of type t from scalar components (inverse of comps()).
func rebuild(t types.Type, cs []string) (Val, []string) {
	if isOpaqueNamed(t) {
		return IntV(cs[0], t), cs[1:]
	}
	switch u := t.Underlying().(type) {
	case *types.Basic:
		if u.Info()&types.IsBoolean != 0 {
			return Val{K: KBool, S: cs[0], T: t}, cs[1:]
		}
		return IntV(cs[0], t), cs[1:]
	case *types.Slice:
		return SliceV(cs[0], cs[1], cs[2], cs[3], t), cs[4:]
	case *types.Struct:
		v := Val{K: KStruct, T: t}
		for i := 0; i < u.NumFields(); i++ {
			var f Val
			f, cs = rebuild(u.Field(i).Type(), cs)
			v.Fs = append(v.Fs, f)
		}
		return v, cs
	case *types.Tuple:
		v := Val{K: KTuple, T: t}
		for i := 0; i < u.Len(); i++ {
			var f Val
			f, cs = rebuild(u.At(i).Type(), cs)
			v.Fs = append(v.Fs, f)
		}
		return v, cs
	}
	return IntV(cs[0], t), cs[1:]
}

func intRange(t types.Type) (lo, hi *big.Int, ok bool) {
	b, isB := t.Underlying().(*types.Basic)
	if !isB || b.Info()&types.IsInteger == 0 {
		return nil, nil, false
	}
	var w uint
	signed := b.Info()&types.IsUnsigned == 0
	switch b.Kind() {
	case types.Int8, types.Uint8:
		w = 8
	case types.Int16, types.Uint16:
		w = 16
	case types.Int32, types.Uint32:
		w = 32
	case types.Int64, types.Uint64, types.Int, types.Uint, types.Uintptr:
		w = 64
	case types.UntypedInt, types.UntypedRune:
		return nil, nil, false
	default:
		return nil, nil, false
	}
	if signed {
		lo = new(big.Int).Neg(pow2(w - 1))
		hi = new(big.Int).Sub(pow2(w-1), big.NewInt(1))
	} else {
		lo = big.NewInt(0)
		hi = new(big.Int).Sub(pow2(w), big.NewInt(1))
	}
	return lo, hi, true
}

func isString(t types.Type) bool {
	b, ok := t.Underlying().(*types.Basic)
	return ok && b.Info()&types.IsString != 0
}

func isFloat(t types.Type) bool {
	b, ok := t.Underlying().(*types.Basic)
	return ok && b.Info()&types.IsFloat != 0
}

func isPointerLike(t types.Type) bool {
	switch t.Underlying().(type) {
	case *types.Pointer, *types.Map, *types.Chan, *types.Interface, *types.Signature:
		return true
	}
	return false
}

// zero value of a type.
func zeroVal(t types.Type) Val {
	if isOpaqueNamed(t) {
		return IntV("0", t)
	}
	switch u := t.Underlying().(type) {
	case *types.Basic:
		if u.Info()&types.IsBoolean != 0 {
			return Val{K: KBool, S: F, T: t}
		}
		if u.Info()&types.IsString != 0 {
			return IntV("str_empty", t)
		}
		return IntV("0", t)
	case *types.Slice:
		return SliceV("0", "0", "0", "0", t)
	case *types.Struct:
		v := Val{K: KStruct, T: t}
		for i := 0; i < u.NumFields(); i++ {
			v.Fs = append(v.Fs, zeroVal(u.Field(i).Type()))
		}
		return v
	case *types.Tuple:
		v := Val{K: KTuple, T: t}
		for i := 0; i < u.Len(); i++ {
			v.Fs = append(v.Fs, zeroVal(u.At(i).Type()))
		}
		return v
	}
	return IntV("0", t)
}
