package main

import (
	"fmt"
	"go/token"
	"go/types"
	"strings"

	"golang.org/x/tools/go/ssa"
)

var tInt = types.Typ[types.Int]
var tErr = types.Universe.Lookup("error").Type()

func (vc *VC) beLoad(st *State, b Val, n int, pos token.Pos, what string) string {
	// panics when len(b) < n (the real implementation bounds-checks b[n-1])
	k := vc.count("idx")
	g := Le(numI(int64(n)), b.Len)
	vc.addObl("idx", fmt.Sprintf("idx#%d", k), st, g, pos, nil, what+" needs "+fmt.Sprint(n)+" bytes")
	st.assume(vc, g)
	h := vc.byteHeapGet(st)
	t := "0"
	for i := 0; i < n; i++ {
		a := &Addr{Kind: AElem, Reg: b.Reg, Idx: Add(b.Off, numI(int64(i))), Root: types.Typ[types.Uint8], T: types.Typ[types.Uint8]}
		_ = h
		byt := vc.load(st, a)
		t = Add(Mul(t, "256"), byt.S)
	}
	return vc.name("be", "Int", t)
}

func (vc *VC) beStore(st *State, b Val, v string, n int, pos token.Pos, what string) {
	k := vc.count("idx")
	g := Le(numI(int64(n)), b.Len)
	vc.addObl("idx", fmt.Sprintf("idx#%d", k), st, g, pos, nil, what+" needs "+fmt.Sprint(n)+" bytes")
	st.assume(vc, g)
	vc.frameCheckRange(st, b.Reg, b.Off, Add(b.Off, numI(int64(n))))
	saved := vc.modset
	vc.modset = nil
	for i := 0; i < n; i++ {
		shift := num(pow2(uint(8 * (n - 1 - i))))
		byt := vc.name("byte", "Int", Mod(Div(v, shift), "256"))
		a := &Addr{Kind: AElem, Reg: b.Reg, Idx: Add(b.Off, numI(int64(i))), Root: types.Typ[types.Uint8], T: types.Typ[types.Uint8]}
		vc.store(st, a, IntV(byt, types.Typ[types.Uint8]))
	}
	vc.modset = saved
}

func (vc *VC) streamPos(st *State, r string) string {
	return Sel(vc.heapGet(st, "G_pos", "(Array Int Int)"), r)
}

func (vc *VC) streamDecls() {
	vc.declareFun("streamLen", []string{"Int"}, "Int")
	vc.declareFun("streamByte", []string{"Int", "Int"}, "Int")
	vc.declareFun("streamClean", []string{"Int"}, "Bool")
	vc.axiom("streamLen_range", "(forall ((r Int)) (! (and (<= 0 (streamLen r)) (<= (streamLen r) 1152921504606846976)) :pattern ((streamLen r))))")
	vc.axiom("streamByte_range", "(forall ((r Int) (i Int)) (! (and (<= 0 (streamByte r i)) (<= (streamByte r i) 255)) :pattern ((streamByte r i))))")
}

// fillFromStream: dst region [off, off+n) := stream bytes [pos, pos+n)
func (vc *VC) fillFromStream(st *State, r string, pos string, dst Val, n string) {
	vc.frameCheckRange(st, dst.Reg, dst.Off, Add(dst.Off, n))
	h := vc.byteHeapGet(st)
	old := vc.name("old", "(Array Int Int)", Sel(h, dst.Reg))
	na := vc.fresh("rd", "(Array Int Int)")
	vc.define(fmt.Sprintf("(forall ((i Int)) (! (= (select %s i) (ite (and (<= %s i) (< i (+ %s %s))) (streamByte %s (+ %s (- i %s))) (select %s i))) :pattern ((select %s i))))",
		na, dst.Off, dst.Off, n, r, pos, dst.Off, old, na))
	vc.heapSet(st, byteHeap, arr2Sort("Int"), Sto(h, dst.Reg, na))
	g := vc.heapGet(st, "G_pos", "(Array Int Int)")
	vc.heapSet(st, "G_pos", "(Array Int Int)", Sto(g, r, Add(pos, n)))
}

func (vc *VC) readerRead(st *State, r Val, p Val) Val {
	vc.streamDecls()
	pos := vc.name("pos", "Int", vc.streamPos(st, r.S))
	L := app("streamLen", r.S)
	st.assume(vc, And(Le("0", pos), Le(pos, L)))
	n := vc.fresh("n", "Int")
	err := vc.fresh("err", "Int")
	eof := vc.errConst("io.EOF")
	st.assume(vc, And(Le("0", n), Le(n, p.Len), Le(n, Sub(L, pos))))
	st.assume(vc, Imp(And(Gt(p.Len, "0"), Eq(n, "0")), Ne(err, "0")))
	st.assume(vc, Imp(Eq(err, eof), Eq(Add(pos, n), L)))
	st.assume(vc, Imp(app("streamClean", r.S), Or(Eq(err, "0"), Eq(err, eof))))
	st.assume(vc, Or(Eq(err, "0"), Eq(err, eof), And(Gt(err, "0"), Le(err, Add(st.alloc, "1")))))
	st.alloc = vc.name("alloc", "Int", Add(st.alloc, "1"))
	vc.fillFromStream(st, r.S, pos, p, n)
	k := vc.count("Read")
	vc.readSites = append(vc.readSites, fmt.Sprintf("Read#%d", k))
	return Val{K: KTuple, Fs: []Val{IntV(n, tInt), IntV(err, tErr)}}
}

// readerView: a *T declared as a view of one of its io.Reader fields reads from that field's stream and counts the bytes.
func (vc *VC) readerView(st *State, r Val) (Val, *Addr) {
	if r.Dyn == nil {
		return r, nil
	}
	et := derefType(r.Dyn)
	n, ok := et.(*types.Named)
	if !ok || n.Obj().Pkg() == nil {
		return r, nil
	}
	v, ok := vc.W.DB.Views[n.Obj().Pkg().Path()+"."+n.Obj().Name()]
	if !ok {
		return r, nil
	}
	stt := et.Underlying().(*types.Struct)
	var inner Val
	var ctr *Addr
	for i := 0; i < stt.NumFields(); i++ {
		if stt.Field(i).Name() == v[0] {
			inner = vc.load(st, &Addr{Kind: AField, Obj: r.S, Root: et, Path: []int{i}, T: stt.Field(i).Type()})
		}
		if stt.Field(i).Name() == v[1] {
			ctr = &Addr{Kind: AField, Obj: r.S, Root: et, Path: []int{i}, T: stt.Field(i).Type()}
		}
	}
	vc.usedCons["readerview "+n.Obj().Pkg().Path()+"."+n.Obj().Name()] = true
	return inner, ctr
}

func (vc *VC) bumpCounter(st *State, ctr *Addr, n string) {
	if ctr == nil {
		return
	}
	old := vc.load(st, ctr)
	vc.store(st, ctr, IntV(vc.name("ctr", "Int", wrap1(vc, Add(old.S, n), ctr.T)), ctr.T))
}

func (vc *VC) readFull(st *State, r Val, buf Val) Val {
	vc.streamDecls()
	vc.nilCheck(st, r, "io.ReadFull on nil reader")
	r, ctr := vc.readerView(st, r)
	defer func() {}()
	pos := vc.name("pos", "Int", vc.streamPos(st, r.S))
	L := app("streamLen", r.S)
	st.assume(vc, And(Le("0", pos), Le(pos, L)))
	n := vc.fresh("n", "Int")
	err := vc.fresh("err", "Int")
	eof := vc.errConst("io.EOF")
	ueof := vc.errConst("io.ErrUnexpectedEOF")
	want := buf.Len
	st.assume(vc, And(Le("0", n), Le(n, want), Le(n, Sub(L, pos))))
	st.assume(vc, Eq(Eq(err, "0"), Eq(n, want)))
	st.assume(vc, Imp(Eq(err, eof), And(Eq(n, "0"), Eq(pos, L))))
	st.assume(vc, Imp(Eq(err, ueof), And(Lt("0", n), Eq(Add(pos, n), L))))
	st.assume(vc, Imp(app("streamClean", r.S), And(Imp(Lt(n, want), Eq(Add(pos, n), L)),
		Or(Eq(err, "0"), Eq(err, eof), Eq(err, ueof)), Imp(And(Lt(n, want), Eq(n, "0")), Eq(err, eof)), Imp(And(Lt(n, want), Gt(n, "0")), Eq(err, ueof)))))
	st.assume(vc, Or(Eq(err, "0"), Eq(err, eof), Eq(err, ueof), And(Gt(err, "0"), Le(err, Add(st.alloc, "1")))))
	st.alloc = vc.name("alloc", "Int", Add(st.alloc, "1"))
	vc.fillFromStream(st, r.S, pos, buf, n)
	vc.bumpCounter(st, ctr, n)
	return Val{K: KTuple, Fs: []Val{IntV(n, tInt), IntV(err, tErr)}}
}

// newError: a fresh non-nil error value; wrapped (%w) errors keep errors.Is for the sentinel targets in use.
func (vc *VC) newError(st *State, wraps []string) Val {
	id := vc.newObj(st)
	for _, w := range wraps {
		for _, tgt := range vc.sentinels() {
			vc.define(Eq(vc.errIs(id, tgt), vc.errIs(w, tgt)))
		}
	}
	if len(wraps) == 0 {
		for _, tgt := range vc.sentinels() {
			vc.define(Not(vc.errIs(id, tgt)))
		}
	}
	return IntV(id, tErr)
}

func (vc *VC) sentinels() []string {
	return []string{vc.errConst("io.EOF"), vc.errConst("io.ErrUnexpectedEOF")}
}

func (vc *VC) intrinsic(st *State, name string, args []Val, c *ssa.CallCommon, resT types.Type, pos token.Pos) (Val, bool) {
	switch name {
	case "encoding/binary.(bigEndian).Uint16", "encoding/binary.bigEndian.Uint16":
		return IntV(vc.beLoad(st, args[1], 2, pos, "BigEndian.Uint16"), types.Typ[types.Uint16]), true
	case "encoding/binary.(bigEndian).Uint32", "encoding/binary.bigEndian.Uint32":
		return IntV(vc.beLoad(st, args[1], 4, pos, "BigEndian.Uint32"), types.Typ[types.Uint32]), true
	case "encoding/binary.(bigEndian).Uint64", "encoding/binary.bigEndian.Uint64":
		return IntV(vc.beLoad(st, args[1], 8, pos, "BigEndian.Uint64"), types.Typ[types.Uint64]), true
	case "encoding/binary.(bigEndian).PutUint16", "encoding/binary.bigEndian.PutUint16":
		vc.beStore(st, args[1], args[2].S, 2, pos, "BigEndian.PutUint16")
		return Val{K: KUnit}, true
	case "encoding/binary.(bigEndian).PutUint32", "encoding/binary.bigEndian.PutUint32":
		vc.beStore(st, args[1], args[2].S, 4, pos, "BigEndian.PutUint32")
		return Val{K: KUnit}, true
	case "encoding/binary.(bigEndian).PutUint64", "encoding/binary.bigEndian.PutUint64":
		vc.beStore(st, args[1], args[2].S, 8, pos, "BigEndian.PutUint64")
		return Val{K: KUnit}, true
	case "io.ReadFull":
		return vc.readFull(st, args[0], args[1]), true
	case "(io.Reader).Read":
		return vc.readerRead(st, args[0], args[1]), true
	case "(io.Writer).Write":
		return vc.writerWrite(st, args[0], args[1]), true
	case "fmt.Errorf":
		// %w operands keep errors.Is
		var wraps []string
		if len(args) > 0 {
			if lit, ok := vc.litOf(args[0].S); ok && strings.Contains(lit, "%w") {
				wraps = vc.errorArgs(st, c)
			}
		}
		return vc.newError(st, wraps), true
	case "errors.New":
		return vc.newError(st, nil), true
	case "errors.Is":
		return BoolV(Or(And(Ne(args[0].S, "0"), Eq(args[0].S, args[1].S)), vc.errIs(args[0].S, args[1].S))), true
	case "(error).Error":
		vc.needStr()
		return IntV(vc.fresh("errmsg", "Int"), types.Typ[types.String]), true
	case "bytes.Equal":
		return BoolV(vc.bytesEqual(st, args[0], args[1])), true
	case "bytes.Compare":
		return IntV(vc.bytesCompare(st, args[0], args[1]), tInt), true
	case "fmt.Sprintf":
		if r, ok := vc.sprintfModel(st, args, c); ok {
			return r, true
		}
		vc.needStr()
		vc.havocked[name] = true
		return IntV(vc.fresh("fmtstr", "Int"), types.Typ[types.String]), true
	case "fmt.Sprint", "fmt.Sprintln", "strconv.Itoa", "encoding/hex.EncodeToString":
		vc.needStr()
		vc.havocked[name] = true
		return IntV(vc.fresh("fmtstr", "Int"), types.Typ[types.String]), true
	case "strings.HasPrefix":
		return BoolV(vc.hasPrefix(args[0].S, args[1].S)), true
	case "sort.Slice":
		vc.sortSlice(st, args[0], c)
		return Val{K: KUnit}, true
	case "sort.Search":
		return vc.sortSearch(st, args[0], args[1], pos), true
	case "math.Float64bits", "math.Float64frombits":
		f := "u_" + sanitize(name)
		vc.declareFun(f, []string{"Int"}, "Int")
		r := vc.forceName("fb", "Int", app(f, args[0].S))
		if name == "math.Float64bits" {
			vc.define(And(Le("0", r), Le(r, "18446744073709551615")))
			vc.declareFun("u_math_Float64frombits", []string{"Int"}, "Int")
		} else {
			vc.declareFun("u_math_Float64bits", []string{"Int"}, "Int")
			vc.define(Eq(app("u_math_Float64bits", r), args[0].S))
		}
		return IntV(r, resT), true
	case "(*sync.Mutex).Lock", "(*sync.Mutex).Unlock", "(*sync.RWMutex).Lock", "(*sync.RWMutex).Unlock", "(*sync.RWMutex).RLock", "(*sync.RWMutex).RUnlock",
		"sync.(*Mutex).Lock", "sync.(*Mutex).Unlock", "sync.(*RWMutex).Lock", "sync.(*RWMutex).Unlock", "sync.(*RWMutex).RLock", "sync.(*RWMutex).RUnlock":
		return Val{K: KUnit}, true
	}
	return Val{}, false
}

func (vc *VC) litOf(sym string) (string, bool) {
	for s, c := range vc.strLits {
		if c == sym {
			return s, true
		}
	}
	return "", false
}

// errorArgs returns error-typed operands of a variadic fmt call (through the varargs array).
func (vc *VC) errorArgs(st *State, c *ssa.CallCommon) []string {
	var out []string
	if c == nil || len(c.Args) < 2 {
		return nil
	}
	// args[1] is a slice of a [n]any array filled by stores of MakeInterface values
	sl, ok := c.Args[1].(*ssa.Slice)
	if !ok {
		return nil
	}
	al, ok := sl.X.(*ssa.Alloc)
	if !ok || al.Referrers() == nil {
		return nil
	}
	for _, r := range *al.Referrers() {
		ia, ok := r.(*ssa.IndexAddr)
		if !ok || ia.Referrers() == nil {
			continue
		}
		for _, u := range *ia.Referrers() {
			s, ok := u.(*ssa.Store)
			if !ok {
				continue
			}
			var src ssa.Value = s.Val
			if ci, ok := src.(*ssa.ChangeInterface); ok {
				src = ci.X
			}
			if mi, ok := src.(*ssa.MakeInterface); ok {
				src = mi.X
			}
			if isErrorType(src.Type()) {
				if v, ok := vc.vals[src]; ok {
					out = append(out, v.S)
				}
			}
		}
	}
	return out
}

func (vc *VC) bytesEqual(st *State, a, b Val) string {
	h := vc.byteHeapGet(st)
	ra := vc.name("ra", "(Array Int Int)", Sel(h, a.Reg))
	rb := vc.name("rb", "(Array Int Int)", Sel(h, b.Reg))
	r := vc.fresh("beq", "Bool")
	vc.define(Eq(r, And(Eq(a.Len, b.Len), fmt.Sprintf("(forall ((i Int)) (! (=> (and (<= 0 i) (< i %s)) (= (select %s (+ %s i)) (select %s (+ %s i)))) :pattern ((select %s (+ %s i)))))", a.Len, ra, a.Off, rb, b.Off, ra, a.Off))))
	// for 16-byte operands (checksums) equality of the bytes is equality of the ids (ids are an injective function of the bytes)
	vc.needSid()
	vc.define(Imp(And(Eq(a.Len, "16"), Eq(b.Len, "16")), Eq(r, Eq(app("sid16", h, a.Reg, a.Off), app("sid16", h, b.Reg, b.Off)))))
	return r
}

// bytesCompare: the three-way comparison is an uninterpreted function cmp3 of the two byte windows (array, offset, length),
// with the range -1..1 and "0 iff equal" known; specs refer to the same function (spec builtin cmp3).
func (vc *VC) bytesCompare(st *State, a, b Val) string {
	h := vc.byteHeapGet(st)
	return vc.cmp3(Sel(h, a.Reg), a.Off, a.Len, Sel(h, b.Reg), b.Off, b.Len)
}

func (vc *VC) cmp3(A, ao, an, B, bo, bn string) string {
	vc.declareFun("cmp3", []string{"(Array Int Int)", "Int", "Int", "(Array Int Int)", "Int", "Int"}, "Int")
	vc.axiom("cmp3_range", "(forall ((A (Array Int Int)) (ao Int) (an Int) (B (Array Int Int)) (bo Int) (bn Int)) (! (and (<= (- 1) (cmp3 A ao an B bo bn)) (<= (cmp3 A ao an B bo bn) 1)) :pattern ((cmp3 A ao an B bo bn))))")
	vc.axiom("cmp3_anti", "(forall ((A (Array Int Int)) (ao Int) (an Int) (B (Array Int Int)) (bo Int) (bn Int)) (! (= (cmp3 B bo bn A ao an) (- 0 (cmp3 A ao an B bo bn))) :pattern ((cmp3 A ao an B bo bn))))")
	return app("cmp3", A, ao, an, B, bo, bn)
}

// sortSearch models sort.Search(n, pred): the predicate closure is evaluated symbolically.
// Result i in [0,n]; if pred is monotone (search-pred clause states it), pred(j) false for j<i and true for j>=i.
func (vc *VC) sortSearch(st *State, n Val, f Val, pos token.Pos) Val {
	if f.K != KFunc {
		panic(unsupported("sort.Search with a predicate that is not a closure literal"))
	}
	ord := vc.count("search")
	i := vc.fresh("search", "Int")
	st.assume(vc, And(Le("0", i), Le(i, n.S)))
	// safety obligations of the predicate body, for an arbitrary index in range
	j := vc.fresh("sj", "Int")
	guard := st.clone()
	guard.assume(vc, And(Le("0", j), Lt(j, n.S)))
	rj := vc.inline(guard, f.Fn, f.Fr, []Val{IntV(j, tInt)}, types.Typ[types.Bool])
	vc.searchRes = append(vc.searchRes, i, j)
	var cl *Clause
	if vc.depth == 0 && vc.Con != nil {
		for _, c := range vc.Con.Of("search") {
			if c.Index == ord {
				cl = c
			}
		}
	}
	if cl != nil {
		// the predicate is given as a spec formula P(j): (1) it is what the closure computes, (2) it is monotone;
		// then sort.Search returns the lower bound: P is false below i and true from i on.
		env := vc.funcEnvAt(guard, pos)
		evalP := func(e *Env, at string) string {
			vc.specDepth++
			defer func() { vc.specDepth-- }()
			return e.bind(cl.Name, IntV(at, tInt)).evalBool(cl.Text)
		}
		pj := evalP(env, j)
		vc.addObl("search", fmt.Sprintf("search-eq#%d", ord), guard, Eq(rj.S, pj), pos, cl.Tags, "closure of sort.Search computes "+cl.Text)
		a, b := vc.fresh("sa", "Int"), vc.fresh("sb", "Int")
		vc.searchRes = append(vc.searchRes, a, b)
		mono := st.clone()
		menv := vc.funcEnvAt(mono, pos)
		mono.assume(vc, And(Le("0", a), Lt(a, b), Lt(b, n.S), evalP(menv, a)))
		vc.addObl("search", fmt.Sprintf("search-mono#%d", ord), mono, evalP(menv, b), pos, cl.Tags, "predicate of sort.Search is monotone: "+cl.Text)
		senv := vc.funcEnvAt(st, pos)
		senv.vars["searchres"] = IntV(i, tInt)
		senv.vars["searchlen"] = IntV(n.S, tInt)
		vc.specDepth++
		lo := senv.evalBool(fmt.Sprintf("forall(%s, 0, searchres, !(%s))", cl.Name, cl.Text))
		hi := senv.evalBool(fmt.Sprintf("forall(%s, searchres, searchlen, %s)", cl.Name, cl.Text))
		vc.specDepth--
		st.assume(vc, And(lo, hi))
		return IntV(i, tInt)
	}
	// what binary search guarantees for ANY pure predicate: pred(i-1) is false (i>0), pred(i) is true (i<n).
	// "i is the lower bound" additionally needs monotonicity (a 'search' clause in the contract supplies it).
	nobl := len(vc.obls)
	lo := st.clone()
	lo.assume(vc, Gt(i, "0"))
	r1 := vc.inline(lo, f.Fn, f.Fr, []Val{IntV(Sub(i, "1"), tInt)}, types.Typ[types.Bool])
	hi := st.clone()
	hi.assume(vc, Lt(i, n.S))
	r2 := vc.inline(hi, f.Fn, f.Fr, []Val{IntV(i, tInt)}, types.Typ[types.Bool])
	vc.obls = vc.obls[:nobl]
	st.assume(vc, Imp(lo.pc, Not(r1.S)))
	st.assume(vc, Imp(hi.pc, r2.S))
	return IntV(i, tInt)
}

// writerWrite: ghost output stream per writer id. G_wlen[w] bytes have been accepted so far, G_wdata[w][i] is byte i.
// Write(p) accepts a prefix of p; it accepts all of p iff it returns a nil error (io.Writer contract).
func (vc *VC) writerWrite(st *State, w Val, p Val) Val {
	wl := vc.heapGet(st, "G_wlen", "(Array Int Int)")
	wd := vc.heapGet(st, "G_wdata", "(Array Int (Array Int Int))")
	cur := vc.name("wlen", "Int", Sel(wl, w.S))
	st.assume(vc, Le("0", cur))
	n := vc.fresh("wn", "Int")
	err := vc.fresh("werr", "Int")
	st.assume(vc, And(Le("0", n), Le(n, p.Len), Eq(Eq(err, "0"), Eq(n, p.Len))))
	st.assume(vc, Or(Eq(err, "0"), And(Gt(err, "0"), Le(err, Add(st.alloc, "1")))))
	st.alloc = vc.name("alloc", "Int", Add(st.alloc, "1"))
	h := vc.byteHeapGet(st)
	src := vc.name("src", "(Array Int Int)", Sel(h, p.Reg))
	old := vc.name("oldw", "(Array Int Int)", Sel(wd, w.S))
	na := vc.fresh("wd", "(Array Int Int)")
	vc.define(fmt.Sprintf("(forall ((i Int)) (! (= (select %s i) (ite (and (<= %s i) (< i (+ %s %s))) (select %s (+ %s (- i %s))) (select %s i))) :pattern ((select %s i))))",
		na, cur, cur, n, src, p.Off, cur, old, na))
	vc.heapSet(st, "G_wdata", "(Array Int (Array Int Int))", Sto(wd, w.S, na))
	vc.heapSet(st, "G_wlen", "(Array Int Int)", Sto(wl, w.S, Add(cur, n)))
	return Val{K: KTuple, Fs: []Val{IntV(n, tInt), IntV(err, tErr)}}
}

func (vc *VC) hasPrefix(s, p string) string {
	vc.needStr()
	vc.declareFun("strHasPrefix", []string{"Int", "Int"}, "Bool")
	vc.axiom("hasPrefix_len", "(forall ((s Int) (p Int)) (! (=> (strHasPrefix s p) (<= (slen p) (slen s))) :pattern ((strHasPrefix s p))))")
	return app("strHasPrefix", s, p)
}

// sortSlice: sort.Slice(x, less) permutes the elements of x in place; only "every element afterwards is one of the elements
// before" is modelled (sortedness with respect to less is not).
func (vc *VC) sortSlice(st *State, x Val, c *ssa.CallCommon) {
	// the slice arrives boxed in an interface: recover it from the MakeInterface operand
	var sv Val
	var et types.Type
	if c != nil {
		if mi, ok := c.Args[0].(*ssa.MakeInterface); ok {
			sv = vc.get(st, mi.X)
			if sl, ok := mi.X.Type().Underlying().(*types.Slice); ok {
				et = sl.Elem()
			}
		}
	}
	if sv.K != KSlice || et == nil {
		panic(unsupported("sort.Slice on something that is not a slice value"))
	}
	vc.frameCheckRange(st, sv.Reg, sv.Off, Add(sv.Off, sv.Len))
	names, sorts := elemHeapNames(et)
	vc.n++
	perm := fmt.Sprintf("perm!%d", vc.n)
	vc.declareFun(perm, []string{"Int"}, "Int")
	vc.define(fmt.Sprintf("(forall ((i Int)) (! (and (<= 0 (%s i)) (< (%s i) %s)) :pattern ((%s i))))", perm, perm, Ite(Gt(sv.Len, "0"), sv.Len, "1"), perm))
	for i, nm := range names {
		h := vc.heapGet(st, nm, arr2Sort(sorts[i]))
		old := vc.name("old", arrSort(sorts[i]), Sel(h, sv.Reg))
		na := vc.fresh("sorted", arrSort(sorts[i]))
		vc.define(fmt.Sprintf("(forall ((i Int)) (! (= (select %s i) (ite (and (<= %s i) (< i (+ %s %s))) (select %s (+ %s (%s (- i %s)))) (select %s i))) :pattern ((select %s i))))",
			na, sv.Off, sv.Off, sv.Len, old, sv.Off, perm, sv.Off, old, na))
		vc.heapSet(st, nm, arr2Sort(sorts[i]), Sto(h, sv.Reg, na))
	}
	// "sorted N: a, b => P(a, b)": P is what the less closure computes (obligation, for arbitrary positions of the slice
	// as it is after the call); then what sort.Slice guarantees is assumed: no element is less than one before it.
	// ASSUMED: sort.Slice orders the slice by its less function (less must be a strict weak order).
	ord := vc.count("sortslice")
	var cl *Clause
	if vc.depth == 0 && vc.Con != nil {
		for _, c2 := range vc.Con.Of("sorted") {
			if c2.Index == ord {
				cl = c2
			}
		}
	}
	if cl == nil || c == nil || len(c.Args) < 2 {
		return
	}
	fv := vc.get(st, c.Args[1])
	if fv.K != KFunc {
		panic(unsupported("sorted clause: the less function of sort.Slice is not a closure literal"))
	}
	names2 := strings.Split(cl.Name, ",")
	if len(names2) != 2 {
		panic(specErr("%s:%d: sorted N: a, b => less", cl.File, cl.Line))
	}
	na, nb := strings.TrimSpace(names2[0]), strings.TrimSpace(names2[1])
	tInt := types.Typ[types.Int]
	a, b := vc.fresh("sa", "Int"), vc.fresh("sb", "Int")
	guard := st.clone()
	guard.assume(vc, And(Le("0", a), Lt(a, sv.Len), Le("0", b), Lt(b, sv.Len)))
	r := vc.inline(guard, fv.Fn, fv.Fr, []Val{IntV(a, tInt), IntV(b, tInt)}, types.Typ[types.Bool])
	pos := vc.curInstr.Pos()
	env := vc.funcEnvAt(guard, pos)
	vc.specDepth++
	p := env.bind(na, IntV(a, tInt)).bind(nb, IntV(b, tInt)).evalBool(cl.Text)
	vc.specDepth--
	vc.addObl("search", fmt.Sprintf("sorted-eq#%d", ord), guard, Eq(r.S, p), pos, cl.Tags, "less function of sort.Slice computes "+cl.Text)
	senv := vc.funcEnvAt(st, pos)
	senv.vars["sortlen"] = IntV(sv.Len, tInt)
	vc.specDepth++
	fact := senv.evalBool(fmt.Sprintf("forall2(%s, %s, 0 <= %s && %s < %s && %s < sortlen ==> !(%s))", na, nb, nb, nb, na, na, cl.Text))
	vc.specDepth--
	st.assume(vc, fact)
	vc.note("sort.Slice is assumed to leave the slice ordered by its less function (a strict weak order)")
}

// fmtOperands returns the original operands of a variadic fmt call (through the [n]any array SSA builds).
func (vc *VC) fmtOperands(c *ssa.CallCommon, argIdx int) []ssa.Value {
	if c == nil || len(c.Args) <= argIdx {
		return nil
	}
	sl, ok := c.Args[argIdx].(*ssa.Slice)
	if !ok {
		return nil
	}
	al, ok := sl.X.(*ssa.Alloc)
	if !ok || al.Referrers() == nil {
		return nil
	}
	byIdx := map[int64]ssa.Value{}
	for _, r := range *al.Referrers() {
		ia, ok := r.(*ssa.IndexAddr)
		if !ok || ia.Referrers() == nil {
			continue
		}
		k, ok := ia.Index.(*ssa.Const)
		if !ok {
			return nil
		}
		for _, u := range *ia.Referrers() {
			if s, ok := u.(*ssa.Store); ok {
				var src ssa.Value = s.Val
				if ci, ok := src.(*ssa.ChangeInterface); ok {
					src = ci.X
				}
				if mi, ok := src.(*ssa.MakeInterface); ok {
					src = mi.X
				}
				byIdx[k.Int64()] = src
			}
		}
	}
	out := make([]ssa.Value, len(byIdx))
	for k, v := range byIdx {
		if int(k) >= len(out) {
			return nil
		}
		out[k] = v
	}
	return out
}

// sprintfModel: length of fmt.Sprintf for a literal format made of text, %s (string operand) and %0Nd / %d (integer operand).
// ASSUMED of package fmt: %0Nd of a non-negative integer has max(N, number of decimal digits) characters.
func (vc *VC) sprintfModel(st *State, args []Val, c *ssa.CallCommon) (Val, bool) {
	if len(args) == 0 {
		return Val{}, false
	}
	f, ok := vc.litOf(args[0].S)
	if !ok {
		return Val{}, false
	}
	ops := vc.fmtOperands(c, 1)
	vc.needStr()
	total := "0"
	k := 0
	for i := 0; i < len(f); i++ {
		if f[i] != '%' {
			total = Add(total, "1")
			continue
		}
		// parse verb
		j := i + 1
		width := 0
		zero := false
		if j < len(f) && f[j] == '0' {
			zero = true
			j++
		}
		for j < len(f) && f[j] >= '0' && f[j] <= '9' {
			width = width*10 + int(f[j]-'0')
			j++
		}
		if j >= len(f) || k >= len(ops) || ops[k] == nil {
			return Val{}, false
		}
		ov, ok := vc.vals[ops[k]]
		if !ok {
			if cst, isC := ops[k].(*ssa.Const); isC {
				ov = vc.constVal(cst)
			} else {
				return Val{}, false
			}
		}
		switch f[j] {
		case 's':
			if !isString(ops[k].Type()) || width != 0 {
				return Val{}, false
			}
			total = Add(total, app("slen", ov.S))
		case 'd':
			if _, _, isI := intRange(ops[k].Type()); !isI {
				return Val{}, false
			}
			vc.declareFun("declen", []string{"Int"}, "Int")
			vc.axiom("declen_def", "(forall ((n Int)) (! (and (>= (declen n) 1) (=> (and (<= 0 n) (< n 10)) (= (declen n) 1)) (=> (and (<= 0 n) (< n 10000000000)) (<= (declen n) 10)) (=> (>= n 10000000000) (> (declen n) 10))) :pattern ((declen n))))")
			d := app("declen", ov.S)
			_ = zero
			if width > 0 {
				w := numI(int64(width))
				total = Add(total, Ite(Ge(d, w), d, w))
			} else {
				total = Add(total, d)
			}
		default:
			return Val{}, false
		}
		k++
		i = j
	}
	r := vc.fresh("sprintf", "Int")
	vc.define(Eq(app("slen", r), vc.name("fmtlen", "Int", total)))
	return IntV(r, types.Typ[types.String]), true
}
