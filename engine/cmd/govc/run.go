package main

import (
	"fmt"
	"go/token"
	"go/types"
	"sort"
	"strings"

	"golang.org/x/tools/go/ssa"
)

// loopsOf computes natural loops of an arbitrary function (used for the function under contract).
func (vc *VC) loopFor(b *ssa.BasicBlock) *LoopInfo {
	if b.Parent() != vc.Fn {
		return nil
	}
	return vc.loops[b]
}

type edgeKey struct{ from, to *ssa.BasicBlock }

// execBlocks runs the blocks of fn from the given state. Returns the states at Return instructions.
func (vc *VC) execBlocks(fn *ssa.Function, st0 *State, _ interface{}) []retRec {
	savedFn := vc.Fn
	isTop := fn == savedFn
	var order []*ssa.BasicBlock
	if isTop {
		order = vc.order()
	} else {
		vc.Fn = fn
		order = vc.order()
		vc.Fn = savedFn
	}
	out := map[edgeKey]*State{}
	var rets []retRec
	for _, b := range order {
		if isTop {
			vc.curBlock = b
		}
		var st *State
		if b == fn.Blocks[0] {
			st = st0.clone()
		} else {
			var ins []*State
			var preds []*ssa.BasicBlock
			for _, p := range b.Preds {
				if b.Dominates(p) {
					continue // back edge
				}
				if s, ok := out[edgeKey{p, b}]; ok && !s.dead {
					ins = append(ins, s)
					preds = append(preds, p)
				}
			}
			if len(ins) == 0 {
				continue // unreachable
			}
			// phis
			var phiVals map[*ssa.Phi][]Val
			for _, in := range b.Instrs {
				phi, ok := in.(*ssa.Phi)
				if !ok {
					break
				}
				if phiVals == nil {
					phiVals = map[*ssa.Phi][]Val{}
				}
				for _, p := range preds {
					for i, bp := range b.Preds {
						if bp == p {
							phiVals[phi] = append(phiVals[phi], vc.get(ins[0], phi.Edges[i]))
							break
						}
					}
				}
			}
			conds := make([]string, len(ins))
			for i, s := range ins {
				conds[i] = s.pc
			}
			for _, in := range b.Instrs {
				phi, ok := in.(*ssa.Phi)
				if !ok {
					break
				}
				vc.vals[phi] = mergeVals(vc, "phi", conds, phiVals[phi])
			}
			st = vc.mergeStates(fmt.Sprintf("b%d", b.Index), ins)
		}
		var li *LoopInfo
		if isTop {
			li = vc.loops[b]
		}
		if li != nil {
			st = vc.enterLoop(li, st)
		}
		for _, in := range b.Instrs {
			if st.pc == F {
				break
			}
			switch t := in.(type) {
			case *ssa.If:
				c := vc.get(st, t.Cond).S
				s1 := st.clone()
				s1.assume(vc, c)
				s2 := st.clone()
				s2.assume(vc, Not(c))
				vc.edge(out, b, b.Succs[0], s1)
				vc.edge(out, b, b.Succs[1], s2)
			case *ssa.Jump:
				vc.edge(out, b, b.Succs[0], st)
			case *ssa.Return:
				var vs []Val
				for _, r := range t.Results {
					vs = append(vs, vc.get(st, r))
				}
				rets = append(rets, retRec{st: st, vals: vs, pos: t.Pos()})
				if isTop {
					vc.loopReturns(st, t, vs)
				}
			case *ssa.Panic:
				vc.curInstr = in
				vc.panicInstr(st, t)
			default:
				vc.instr(st, in)
			}
		}
	}
	if isTop {
		// inner loops first, so that "unchanged since the header" facts compose outwards
		byDepth := append([]*LoopInfo(nil), vc.loopList...)
		sort.SliceStable(byDepth, func(i, j int) bool { return len(byDepth[i].Body) < len(byDepth[j].Body) })
		for _, li := range byDepth {
			vc.closeLoop(li)
		}
	}
	return rets
}

func (vc *VC) edge(out map[edgeKey]*State, from, to *ssa.BasicBlock, st *State) {
	if to.Dominates(from) && from.Parent() == vc.Fn {
		// back edge of the function under contract
		if li := vc.loops[to]; li != nil {
			li.backSts = append(li.backSts, st)
			li.backMarks = append(li.backMarks, vc.n)
			return
		}
	}
	if to.Dominates(from) {
		panic(unsupported("loop in a function without contract (%s)", from.Parent().Name()))
	}
	out[edgeKey{from, to}] = st
}

func (vc *VC) panicInstr(st *State, p *ssa.Panic) {
	k := vc.count("panic")
	goal := F
	if vc.depth == 0 && vc.Con != nil {
		var alts []string
		env := vc.entryEnv(vc.entry.clone())
		for _, cl := range vc.Con.Of("panics-when") {
			alts = append(alts, vc.specBool(env, cl))
		}
		goal = Or(alts...)
	}
	vc.addObl("panic", fmt.Sprintf("panic#%d", k), st, goal, p.Pos(), nil, "explicit panic reachable")
}

func (vc *VC) funcEnv(st *State, pos token.Pos) *Env {
	var pkg *types.Package
	if vc.Fn.Pkg != nil {
		pkg = vc.Fn.Pkg.Pkg
	}
	vars := map[string]Val{}
	return &Env{vc: vc, st: st, old: vc.entry, vars: vars, fn: vc.Fn, pos: pos, pkg: pkg, what: "contract of " + vc.Fn.Name()}
}

// enterLoop: check the invariant on entry, havoc what the loop may change, assume the invariant.
func (vc *VC) enterLoop(li *LoopInfo, pre *State) *State {
	li.pre = pre.clone()
	li.mark = vc.n
	env := vc.funcEnv(pre, li.Scope)
	vc.bindIter(env, li, pre)
	for _, cl := range vc.Con.OfLoop("let", li.Ordinal) {
		// loop-entry snapshot: name = value of the expression just before the loop is entered
		i := strings.Index(cl.Text, "=")
		if i < 0 {
			panic(unsupported("%s:%d: loop let syntax: name = expr", cl.File, cl.Line))
		}
		vc.specDepth++
		v := env.eval(cl.Text[i+1:])
		vc.specDepth--
		if v.K == KInt && !strings.Contains(cl.Text, "contents(") {
			v.S = vc.name("let_"+strings.TrimSpace(cl.Text[:i]), "Int", v.S)
		}
		vc.lets[strings.TrimSpace(cl.Text[:i])] = v
	}
	invs := vc.Con.OfLoop("invariant", li.Ordinal)
	for _, cl := range invs {
		g := vc.specBool(env, cl)
		vc.addObl("inv-entry", fmt.Sprintf("inv-entry:L%d#%d", li.Ordinal, cl.Index), pre, g, li.Pos, cl.Tags, cl.Text)
	}
	h := pre.clone()
	li.hdrLocal = map[*ssa.Alloc]Val{}
	li.hdrHeap = map[string]string{}
	for _, a := range sortedAllocs(pre.locals) {
		v := pre.locals[a]
		if v.K == KAddr || v.K == KFunc || v.K == KUnit {
			continue
		}
		nv := vc.freshVal("L"+fmt.Sprint(li.Ordinal)+"_"+a.Comment, derefType(a.Type()))
		li.hdrLocal[a] = nv
		h.locals[a] = nv
	}
	for _, n := range vc.arrayOrd {
		if _, ok := pre.heap[n]; !ok {
			continue
		}
		c := vc.fresh(fmt.Sprintf("L%d_%s", li.Ordinal, n), vc.arrays[n])
		li.hdrHeap[n] = c
		h.heap[n] = c
	}
	al := vc.fresh("alloc", "Int")
	for _, n := range vc.arrayOrd {
		if c, ok := li.hdrHeap[n]; ok {
			vc.refBound(n, c, al)
		}
	}
	h.alloc = al
	h.assume(vc, Ge(al, pre.alloc))
	for _, a := range sortedAllocs(li.hdrLocal) {
		h.assume(vc, vc.valid(h, li.hdrLocal[a]))
	}
	if li.rangeIdx != nil {
		// the hidden range index starts at -1 and only ever grows by one per iteration
		if v, ok := h.locals[li.rangeIdx]; ok {
			h.assume(vc, Le("(- 1)", v.S))
			// and it never passes the length evaluated before the loop: the header compares index+1 against it
			for _, in := range li.Header.Instrs {
				if bo, ok := in.(*ssa.BinOp); ok && bo.Op == token.LSS {
					if lv, ok := vc.vals[bo.Y]; ok && lv.K == KInt {
						h.assume(vc, Or(Lt(v.S, lv.S), Eq(v.S, "(- 1)")))
					}
				}
			}
		}
	}
	li.hdr = h.clone()
	env2 := vc.funcEnv(h, li.Scope)
	vc.bindIter(env2, li, h)
	for _, cl := range invs {
		h.assume(vc, vc.specBool(env2, cl))
	}
	for _, cl := range vc.Con.OfLoop("decreases", li.Ordinal) {
		vc.specDepth++
		v := env2.eval(cl.Text)
		vc.specDepth--
		li.variant = append(li.variant, vc.forceName("variant", "Int", v.S))
	}
	li.hdr.pc = h.pc
	return h
}

func (vc *VC) bindIter(env *Env, li *LoopInfo, st *State) {
	for _, in := range li.Header.Instrs {
		if nx, ok := in.(*ssa.Next); ok {
			if rg, ok := nx.Iter.(*ssa.Range); ok {
				if it, ok := vc.iters[rg]; ok {
					env.vars["visited"] = Val{K: KInt, S: vc.heapGet(st, it.ghost, "(Array Int Bool)")}
				}
			}
		}
	}
	if li.rangeIdx != nil {
		if v, ok := st.locals[li.rangeIdx]; ok {
			env.vars["iter"] = IntV(Add(v.S, "1"), types.Typ[types.Int])
		}
	}
}

// closeLoop: invariant preservation and variant at every back edge; frame of what the loop did not change.
func (vc *VC) closeLoop(li *LoopInfo) {
	if li.hdr == nil {
		return // unreachable loop
	}
	invs := vc.Con.OfLoop("invariant", li.Ordinal)
	for bi, bs := range li.backSts {
		env := vc.funcEnv(bs, li.Scope)
		vc.bindIter(env, li, bs)
		sfx := ""
		if len(li.backSts) > 1 {
			sfx = fmt.Sprintf("/e%d", bi+1)
		}
		// obligations of a back edge see the program up to that edge (symbols created while evaluating the invariant
		// here are definitions of this obligation and stay visible: they are numbered after the edge but named in the goal)
		n0, hi := len(vc.obls), vc.n
		for _, cl := range invs {
			g := vc.specBool(env, cl)
			vc.addObl("inv-step", fmt.Sprintf("inv-step:L%d#%d%s", li.Ordinal, cl.Index, sfx), bs, g, li.Pos, cl.Tags, cl.Text)
		}
		defer func(n0, bi, hi int) {
			for _, o := range vc.obls[n0:] {
				if o.Hi == 0 && bi < len(li.backMarks) {
					o.Mark, o.Hi = li.backMarks[bi], hi
					if len(vc.Con.OfLoop("local", li.Ordinal)) > 0 {
						// "loop N local": the steps of this loop are proved from its invariants, the function's requires and
						// the unchanged part of the state; quantified facts learnt between entry and this loop are left out
						o.CutLo, o.CutHi = vc.entryMark, li.mark
					}
				}
			}
		}(n0, bi, hi)
		for vi, cl := range vc.Con.OfLoop("decreases", li.Ordinal) {
			vc.specDepth++
			v := env.eval(cl.Text)
			vc.specDepth--
			g := And(Le("0", li.variant[vi]), Lt(v.S, li.variant[vi]))
			vc.addObl("dec", fmt.Sprintf("dec:L%d%s", li.Ordinal, sfx), bs, g, li.Pos, cl.Tags, "variant "+cl.Text)
		}
	}
	if len(vc.Con.OfLoop("decreases", li.Ordinal)) == 0 && vc.W.needVariant(vc.Con) && len(li.backSts) > 0 {
		vc.addObl("dec", fmt.Sprintf("dec:L%d", li.Ordinal), li.hdr, F, li.Pos, nil, "loop has no decreases clause")
	}
	// cells and heap arrays that hold their header value at every back edge were not changed by the loop
	vc.atOverride = li.mark
	defer func() { vc.atOverride = 0 }()
	for _, a := range sortedAllocs(li.hdrLocal) {
		hv := li.hdrLocal[a]
		same := true
		for _, bs := range li.backSts {
			bv, ok := bs.locals[a]
			if !ok || !vc.sameVal(bv, hv) {
				same = false
				break
			}
		}
		if same {
			pv := li.pre.locals[a]
			hc, pc := hv.comps(), pv.comps()
			for i := range hc {
				vc.alias[hc[i]] = pc[i]
				// a definition of the header symbol: relevant only where that symbol is used
				vc.addDef(def{hc[i], "", pc[i]})
			}
		}
	}
	var hnames []string
	for n := range li.hdrHeap {
		hnames = append(hnames, n)
	}
	sort.Strings(hnames)
	// first every array the loop leaves alone (so that their header symbols resolve to the values before the loop) ...
	var modified []string
	for _, n := range hnames {
		hc := li.hdrHeap[n]
		same := true
		for _, bs := range li.backSts {
			if vc.resolve(bs.heap[n]) != hc {
				same = false
				break
			}
		}
		pv := li.pre.heap[n]
		if same {
			vc.alias[hc] = pv
			vc.addDef(def{hc, "", pv})
			continue
		}
		modified = append(modified, n)
	}
	// ... then frames for the arrays it writes: what the loop did not write keeps its value (write-set inference), and
	// pre-existing locations outside the function's modifies set keep their value
	for _, n := range modified {
		hc := li.hdrHeap[n]
		pv := li.pre.heap[n]
		vc.inferredFrame(n, hc, pv, li)
		vc.loopFrame(n, hc, pv, li)
	}
}

func (vc *VC) sameVal(a, b Val) bool {
	ca, cb := a.comps(), b.comps()
	if len(ca) != len(cb) {
		return false
	}
	for i := range ca {
		if vc.resolve(ca[i]) != cb[i] {
			return false
		}
	}
	return true
}

// loopFrame: relation between a heap array at the loop header (any iteration) and before the loop.
func (vc *VC) loopFrame(n, hdr, pre string, li *LoopInfo) {
	if strings.HasPrefix(n, "G_") || strings.HasPrefix(n, "M_") {
		return
	}
	ms := vc.modset
	if ms == nil || ms.All {
		return
	}
	ea := vc.entryAlloc
	switch {
	case strings.HasPrefix(n, "F_"):
		var excl []string
		for _, k := range sortedFieldKeys(ms.Fields) {
			if n == k || strings.HasPrefix(n, k+"_") {
				for _, o := range ms.Fields[k] {
					excl = append(excl, Ne("o", o))
				}
			}
		}
		vc.define(fmt.Sprintf("(forall ((o Int)) (! (=> %s (= (select %s o) (select %s o))) :pattern ((select %s o))))",
			And(append([]string{Le("o", ea)}, excl...)...), hdr, pre, hdr))
	case strings.HasPrefix(n, "P_"):
		var excl []string
		for _, o := range ms.Boxes {
			excl = append(excl, Ne("o", o))
		}
		vc.define(fmt.Sprintf("(forall ((o Int)) (! (=> %s (= (select %s o) (select %s o))) :pattern ((select %s o))))",
			And(append([]string{Le("o", ea), Ge("o", "0")}, excl...)...), hdr, pre, hdr))
	case strings.HasPrefix(n, "E_"):
		// per region: untouched outside declared windows
		var excl []string
		for _, m := range ms.Regions {
			if m.Elem != "" && n != m.Elem && !strings.HasPrefix(n, m.Elem+"_") {
				continue
			}
			excl = append(excl, Not(And(Eq("r", m.Reg), Le(m.Lo, "i"), Lt("i", m.Hi))))
		}
		vc.define(fmt.Sprintf("(forall ((r Int) (i Int)) (! (=> %s (= (select (select %s r) i) (select (select %s r) i))) :pattern ((select (select %s r) i))))",
			And(append([]string{Le("r", ea)}, excl...)...), hdr, pre, hdr))
	}
}

// verifyFunction generates all obligations of the function under contract.
func (vc *VC) verifyFunction() (err error) {
	defer func() {
		if r := recover(); r != nil {
			switch e := r.(type) {
			case Unsupported:
				where := ""
				if vc.curInstr != nil {
					where = vc.W.Fset.Position(vc.curInstr.Pos()).String() + ": "
				}
				err = fmt.Errorf("out of subset: %s%s", where, e.Msg)
			case SpecError:
				err = fmt.Errorf("spec error: %s", e.Msg)
			default:
				panic(r)
			}
		}
	}()
	if err := vc.findLoops(); err != nil {
		return fmt.Errorf("out of subset: %v", err)
	}
	vc.escapeAnalysis()
	// dry run: discover every heap array the function touches
	for round := 0; round < 4; round++ {
		before := len(vc.arrayOrd)
		vc.dry = true
		vc.reset()
		vc.runOnce()
		if len(vc.arrayOrd) == before {
			break
		}
	}
	vc.dry = false
	vc.reset()
	vc.runOnce()
	return nil
}

func (vc *VC) runOnce() {
	fn := vc.Fn
	st := &State{pc: T, locals: map[*ssa.Alloc]Val{}, heap: map[string]string{}}
	vc.needStr()
	vc.declare("alloc0", "Int")
	st.alloc = "alloc0"
	vc.entryAlloc = "alloc0"
	vc.define(Ge("alloc0", "0"))
	for n := range pendingRefs {
		vc.noteRef(n, true)
	}
	for _, n := range vc.arrayOrd {
		init := "H0_" + n
		vc.declare(init, vc.arrays[n])
		st.heap[n] = init
		vc.refBound(n, init, "alloc0")
	}
	if _, ok := st.heap["G_allocated"]; ok {
		vc.define(Eq("H0_G_allocated", "0"))
	}
	// parameters
	vc.params = map[string]Val{}
	for _, p := range fn.Params {
		v := vc.freshVal("p_"+p.Name(), p.Type())
		vc.vals[p] = v
		vc.params[p.Name()] = v
		st.assume(vc, vc.valid(st, v))
	}
	for _, fv := range fn.FreeVars {
		// captured variables are cells owned by the enclosing function: boxed
		et := derefType(fv.Type())
		id := vc.fresh("fv_"+fv.Name(), "Int")
		st.assume(vc, And(Le("1", id), Le(id, st.alloc)))
		if isStructT(et) {
			vc.vals[fv] = IntV(id, fv.Type())
		} else if arr, ok := isArrayT(et); ok {
			_ = arr
			vc.vals[fv] = IntV(id, fv.Type())
		} else {
			vc.vals[fv] = Val{K: KAddr, T: fv.Type(), A: &Addr{Kind: ABox, Obj: id, Root: et, T: et}}
		}
		vc.params[fv.Name()] = vc.vals[fv]
	}
	if fn.Signature.Recv() != nil && len(fn.Params) > 0 {
		if _, isPtr := fn.Params[0].Type().Underlying().(*types.Pointer); isPtr {
			st.assume(vc, Ne(vc.vals[fn.Params[0]].S, "0"))
		}
	}
	vc.entry = st.clone()
	// requires
	env := vc.entryEnv(st)
	for _, cl := range vc.Con.Of("let") {
		vc.specDepth++
		vc.lets[cl.Name] = env.eval(cl.Text)
		vc.specDepth--
	}
	vc.localFunsInit(env)
	for _, cl := range vc.Con.Of("requires") {
		st.assume(vc, vc.specBool(env, cl))
	}
	// reveal name(args): the definition of an opaque predicate, for these arguments, in the entry state
	for _, cl := range vc.Con.Of("reveal") {
		txt := strings.TrimSpace(cl.Text)
		i := strings.Index(txt, "(")
		if i < 0 {
			panic(specErr("%s:%d: reveal name(args)", cl.File, cl.Line))
		}
		name := txt[:i]
		d, ok := vc.W.DB.Defs[name]
		if !ok || d.Kind != "opaque" {
			panic(specErr("%s:%d: %s is not an opaque predicate", cl.File, cl.Line, name))
		}
		argTexts := splitTop(txt[i+1:len(txt)-1], ",")
		vc.specDepth++
		op := env.evalBool(txt)
		inner := env
		for k, p := range d.Params {
			inner = inner.bind(p, env.eval(argTexts[k]))
		}
		body := inner.evalBool(d.Text)
		vc.specDepth--
		st.assume(vc, Eq(op, body))
	}
	vc.entry = st.clone()
	vc.lemmas(st, env)
	vc.entry = st.clone()
	vc.entryMark = vc.n
	vc.modset = vc.evalModifies(env, vc.Con.Of("modifies"))
	if !vc.Con.Has("modifies") && vc.W.lenientFrame(vc.Con) {
		vc.modset = &ModSet{All: true}
	}
	// vacuity: the precondition must be satisfiable
	if !vc.dry {
		vc.obls = append(vc.obls, &Obl{Name: "vac:requires", Kind: "vac", PC: st.pc, Goal: F, Expect: "sat", Pos: vc.W.Fset.Position(fn.Pos())})
	}
	vc.lockFrame()
	if vc.Con.Has("frame-only") {
		// only the lock discipline of this goroutine body is under contract; its data flow is not executed symbolically
		return
	}
	rets := vc.execBlocks(fn, st, nil)
	vc.results = rets
	if len(rets) == 0 {
		return
	}
	// every ensures clause is checked at every return statement, in the state of that path
	multi := len(rets) > 1
	for ri, r := range rets {
		penv := vc.entryEnv(r.st)
		penv.old = vc.entry
		vc.bindResults(penv, vc.Con, r.vals, fnFullName(fn))
		for _, cl := range vc.Con.Of("ensures") {
			g := vc.specBool(penv, cl)
			name := fmt.Sprintf("post#%d", cl.Index)
			if multi {
				name = fmt.Sprintf("post#%d/r%d", cl.Index, ri+1)
			}
			// candidates for existential goals: integer locals of this path
			vc.addObl("post", name, r.st, g, fn.Pos(), cl.Tags, cl.Text)
		}
	}
	// frame of the stream ghost: a reader whose position this function advances must be declared (modifies stream(r)),
	// otherwise callers would keep believing the position unchanged
	if vc.modset != nil && !vc.modset.All {
		if _, ok := vc.arrays["G_pos"]; ok {
			for ri, r := range rets {
				fin := vc.heapGet(r.st, "G_pos", "(Array Int Int)")
				ent := vc.heapGet(vc.entry, "G_pos", "(Array Int Int)")
				if fin == ent {
					continue
				}
				t := ent
				for _, sr := range vc.modset.Streams {
					t = Sto(t, sr, Sel(fin, sr))
				}
				name := "frame:streams"
				if multi {
					name = fmt.Sprintf("frame:streams/r%d", ri+1)
				}
				vc.addObl("frame", name, r.st, Eq(fin, t), fn.Pos(), nil, "only the declared streams advance")
			}
		}
	}
	// "final P": an assertion about the state in which the function returns that may mention its local variables (the
	// callers never see it). It is checked at every return statement where all the locals it names are in scope, and must
	// be checkable at one of them at least.
	for _, cl := range vc.Con.Of("final") {
		sites := 0
		for ri, r := range rets {
			penv := vc.funcEnv(r.st, r.pos)
			penv.old = vc.entry
			for k, v := range vc.params {
				if v.K != KAddr {
					penv.vars[k] = v
				}
			}
			vc.bindResults(penv, vc.Con, r.vals, fnFullName(fn))
			g, ok := func() (g string, ok bool) {
				defer func() {
					if e := recover(); e != nil {
						if strings.Contains(fmt.Sprint(e), "unknown identifier") {
							ok = false
							return
						}
						panic(e)
					}
				}()
				return vc.specBool(penv, cl), true
			}()
			if !ok {
				continue
			}
			sites++
			name := fmt.Sprintf("final#%d", cl.Index)
			if multi {
				name = fmt.Sprintf("final#%d/r%d", cl.Index, ri+1)
			}
			vc.addObl("post", name, r.st, g, fn.Pos(), cl.Tags, cl.Text)
		}
		if sites == 0 {
			panic(specErr("%s:%d: final clause cannot be evaluated at any return statement", cl.File, cl.Line))
		}
	}
}

// entryEnv: parameters are bound to their entry values (contracts speak about arguments, not about the mutable parameter cells).
func (vc *VC) entryEnv(st *State) *Env {
	var pkg *types.Package
	if vc.Fn.Pkg != nil {
		pkg = vc.Fn.Pkg.Pkg
	}
	vars := map[string]Val{}
	for k, v := range vc.params {
		if v.K == KAddr {
			continue
		}
		vars[k] = v
	}
	return &Env{vc: vc, st: st, old: vc.entry, vars: vars, pkg: pkg, what: "contract of " + vc.Fn.Name()}
}

// localFunsInit declares function-local ghost functions:  ghost off(i) = base; step   (prefix sums)
func (vc *VC) localFunsInit(env *Env) {
	vc.localFuns = map[string]string{}
	for _, cl := range vc.Con.Of("ghost") {
		// ghost name(i) : base B ; step(i) E      meaning name(0)=B, name(i+1)=name(i)+E(i) for 0<=i<bound
		txt := cl.Text
		parts := strings.SplitN(txt, ":", 2)
		if len(parts) != 2 {
			panic(specErr("%s:%d: ghost syntax: name(i) : base B ; step E ; upto N", cl.File, cl.Line))
		}
		head := strings.TrimSpace(parts[0])
		name := head[:strings.Index(head, "(")]
		v := strings.TrimSuffix(head[strings.Index(head, "(")+1:], ")")
		var base, step, upto string
		for _, seg := range strings.Split(parts[1], ";") {
			seg = strings.TrimSpace(seg)
			switch {
			case strings.HasPrefix(seg, "base "):
				base = seg[5:]
			case strings.HasPrefix(seg, "step "):
				step = seg[5:]
			case strings.HasPrefix(seg, "upto "):
				upto = seg[5:]
			}
		}
		f := fmt.Sprintf("g_%s", name)
		vc.declareFun(f, []string{"Int"}, "Int")
		vc.localFuns[name] = f
		vc.specDepth++
		b := env.eval(base).S
		vc.define(Eq(app(f, "0"), b))
		vc.n++
		bv := fmt.Sprintf("%s!q%d", v, vc.n)
		inner := env.bind(v, IntV(bv, nil))
		s := inner.eval(step).S
		guard := Le("0", bv)
		if upto != "" {
			guard = And(guard, Lt(bv, env.eval(upto).S))
		}
		vc.specDepth--
		vc.define(fmt.Sprintf("(forall ((%s Int)) (! (=> %s (= (%s (+ %s 1)) (+ (%s %s) %s))) :pattern ((%s %s))))", bv, guard, f, bv, f, bv, s, f, bv))
	}
}

func sortedKeys(m map[string]bool) []string {
	var out []string
	for k := range m {
		out = append(out, k)
	}
	sort.Strings(out)
	return out
}

func sortedAllocs(m map[*ssa.Alloc]Val) []*ssa.Alloc {
	out := make([]*ssa.Alloc, 0, len(m))
	for a := range m {
		out = append(out, a)
	}
	sort.Slice(out, func(i, j int) bool {
		if out[i].Pos() != out[j].Pos() {
			return out[i].Pos() < out[j].Pos()
		}
		if out[i].Name() != out[j].Name() {
			return out[i].Name() < out[j].Name()
		}
		return out[i].Parent().Name() < out[j].Parent().Name()
	})
	return out
}

// loopReturns checks "loop N returns P" clauses at a return statement that lies inside loop N.
func (vc *VC) loopReturns(st *State, ret *ssa.Return, vals []Val) {
	for _, li := range vc.loopList {
		cls := vc.Con.OfLoop("returns", li.Ordinal)
		if len(cls) == 0 || li.hdr == nil {
			continue
		}
		p := ret.Pos()
		if !(li.Pos <= p && p < li.End) {
			continue
		}
		env := vc.funcEnv(st, p)
		vc.bindResults(env, vc.Con, vals, fnFullName(vc.Fn))
		k := vc.count(fmt.Sprintf("ret:L%d", li.Ordinal))
		for _, cl := range cls {
			g := vc.specBool(env, cl)
			vc.addObl("ret", fmt.Sprintf("ret:L%d#%d.%d", li.Ordinal, k, cl.Index), st, g, p, cl.Tags, cl.Text)
		}
	}
}

// lemmas: "lemma name: forall(i, lo, hi, P(i))" is proved by induction on i (base P(lo), step P(i) ==> P(i+1) for lo <= i < hi-1)
// as two obligations in the entry state, and then assumed for the rest of the function.
func (vc *VC) lemmas(st *State, env *Env) {
	for _, cl := range vc.Con.Of("lemma") {
		txt := strings.TrimSpace(cl.Text)
		down := false
		if strings.HasPrefix(txt, "down ") {
			down = true
			txt = strings.TrimSpace(txt[5:])
		}
		if !strings.HasPrefix(txt, "forall(") || !strings.HasSuffix(txt, ")") {
			panic(specErr("%s:%d: lemma must have the form forall(i, lo, hi, P)", cl.File, cl.Line))
		}
		parts := splitTop(txt[len("forall("):len(txt)-1], ",")
		if len(parts) < 4 {
			panic(specErr("%s:%d: lemma must have the form forall(i, lo, hi, P)", cl.File, cl.Line))
		}
		v := strings.TrimSpace(parts[0])
		body := strings.Join(parts[3:], ",")
		vc.specDepth++
		lo := env.eval(parts[1]).S
		hi := env.eval(parts[2]).S
		base := env.bind(v, IntV(lo, nil)).evalBool(body)
		k := vc.fresh("lem_"+v, "Int")
		pk := env.bind(v, IntV(k, nil)).evalBool(body)
		pk1 := env.bind(v, IntV(Add(k, "1"), nil)).evalBool(body)
		whole := env.evalBool(txt)
		vc.specDepth--
		if down {
			// downward induction: P(hi-1), and P(k+1) ==> P(k)
			vc.specDepth++
			base = env.bind(v, IntV(Sub(hi, "1"), nil)).evalBool(body)
			vc.specDepth--
			vc.addObl("lemma", "lemma:"+cl.Name+":base", st, Imp(Lt(lo, hi), base), vc.Fn.Pos(), cl.Tags, cl.Text)
			stepSt := st.clone()
			stepSt.assume(vc, And(Le(lo, k), Lt(Add(k, "1"), hi), pk1))
			vc.addObl("lemma", "lemma:"+cl.Name+":step", stepSt, pk, vc.Fn.Pos(), cl.Tags, cl.Text)
			st.assume(vc, whole)
			continue
		}
		vc.addObl("lemma", "lemma:"+cl.Name+":base", st, Imp(Lt(lo, hi), base), vc.Fn.Pos(), cl.Tags, cl.Text)
		stepSt := st.clone()
		stepSt.assume(vc, And(Le(lo, k), Lt(Add(k, "1"), hi), pk))
		vc.addObl("lemma", "lemma:"+cl.Name+":step", stepSt, pk1, vc.Fn.Pos(), cl.Tags, cl.Text)
		st.assume(vc, whole)
	}
}

// funcEnvAt: environment for clauses evaluated in the middle of the function: parameters by their current cell values,
// old() = function entry.
func (vc *VC) funcEnvAt(st *State, pos token.Pos) *Env {
	return vc.funcEnv(st, pos)
}

// resolveTerm replaces symbols that were found equal to an earlier symbol (unchanged across a loop) by that symbol.
func (vc *VC) resolveTerm(t string) string {
	for i := 0; i < 8; i++ {
		m := map[string]bool{}
		symbols(t, m)
		changed := false
		for sym := range m {
			if r := vc.resolve(sym); r != sym {
				t = substSym(t, sym, r)
				changed = true
			}
		}
		if !changed {
			break
		}
	}
	return t
}

// expandIntDefs replaces integer names introduced after mark (names of long index terms) by their definitions
func (vc *VC) expandIntDefs(t string, mark int) string {
	for round := 0; round < 4; round++ {
		m := map[string]bool{}
		symbols(t, m)
		changed := false
		for sym := range m {
			if symNumber(sym) <= mark {
				continue
			}
			for _, d := range vc.defs {
				if d.Name == sym && d.Sort == "Int" {
					t = substSym(t, sym, vc.resolveTerm(d.Term))
					changed = true
					break
				}
			}
		}
		if !changed {
			break
		}
	}
	return t
}

func symNumber(sym string) int {
	i := strings.LastIndex(sym, "!")
	if i < 0 {
		return -1
	}
	if i+1 >= len(sym) {
		return -1 // "!" itself (the annotation marker), or a name ending in "!"
	}
	n := 0
	for _, c := range sym[i+1:] {
		if c < '0' || c > '9' {
			return -1
		}
		n = n*10 + int(c-'0')
	}
	return n
}

// inferredFrame: if every update of array n inside the loop touches an object/region whose identity is the same in every
// iteration (a term over symbols that existed before the loop), then all other objects/regions of n are unchanged by the loop.
func (vc *VC) inferredFrame(n, hdr, pre string, li *LoopInfo) {
	if (strings.HasPrefix(n, "G_") && n != "G_pos") || vc.dry {
		return
	}
	sort := vc.arrays[n]
	if !strings.HasPrefix(sort, "(Array Int ") {
		return
	}
	var targets []string
	seen := map[string]bool{}
	// per target: the elements written, when every update of that target is a single-element update at an index that is the
	// same in every iteration (nil: some other kind of update)
	elems := map[string][]string{}
	whole := map[string]bool{}
	for _, w := range vc.writes {
		if w.name != n || w.block == nil || !li.Body[w.block] {
			continue
		}
		if w.target == "" {
			return
		}
		t := vc.resolveTerm(w.target)
		if w.index == "" {
			whole[t] = true
		} else {
			ix := vc.expandIntDefs(vc.resolveTerm(w.index), li.mark)
			m := map[string]bool{}
			symbols(ix, m)
			for sym := range m {
				if k := symNumber(sym); k > li.mark {
					whole[t] = true
				}
			}
			dup := false
			for _, e := range elems[t] {
				if e == ix {
					dup = true
				}
			}
			if !dup {
				elems[t] = append(elems[t], ix)
			}
		}
		m := map[string]bool{}
		symbols(t, m)
		for sym := range m {
			if k := symNumber(sym); k > li.mark {
				return // the target may differ between iterations
			}
		}
		if !seen[t] {
			seen[t] = true
			targets = append(targets, t)
		}
	}
	if len(targets) == 0 || len(targets) > 6 {
		return
	}
	var excl []string
	for _, t := range targets {
		excl = append(excl, Ne("o", t))
	}
	vc.define(fmt.Sprintf("(forall ((o Int)) (! (=> %s (= (select %s o) (select %s o))) :pattern ((select %s o))))", And(excl...), hdr, pre, hdr))
	// within a written object/region: the elements other than the (iteration-independent) ones the loop updates keep their value
	if strings.HasPrefix(sort, "(Array Int (Array Int ") {
		for _, t := range targets {
			if whole[t] || len(elems[t]) == 0 || len(elems[t]) > 4 {
				continue
			}
			var ex []string
			for _, t2 := range targets {
				if t2 != t {
					ex = append(ex, Ne(t, t2)) // another written object may be the same one at run time
				}
			}
			for _, e := range elems[t] {
				ex = append(ex, Ne("k", e))
			}
			vc.define(fmt.Sprintf("(forall ((k Int)) (! (=> %s (= (select (select %s %s) k) (select (select %s %s) k))) :pattern ((select (select %s %s) k))))",
				And(ex...), hdr, t, pre, t, hdr, t))
		}
	}
}
