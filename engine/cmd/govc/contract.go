package main

import (
	"bufio"
	"fmt"
	"os"
	"path/filepath"
	"regexp"
	"strconv"
	"strings"
)

// Clause is one line of a contract: a keyword, optional property tags, text.
type Clause struct {
	Kind  string   // requires ensures modifies invariant decreases ...
	Tags  []string // property ids the clause is counted under (empty = all of the function's)
	Loop  int      // loop ordinal for loop clauses (1-based), 0 otherwise
	Name  string   // lemma / assert name
	Text  string
	File  string
	Line  int
	Index int // ordinal among clauses of the same kind (and loop)
}

type Contract struct {
	Pkg     string // package path
	Key     string // function key relative to package: Name, (*T).Name, (T).Name, f$1
	Props   []string
	Clauses []*Clause
	File    string
	Line    int
	Trusted bool   // contract is assumed, body not verified (external or explicitly trusted)
	Mode    string // int | bv
	Used    bool
}

func (c *Contract) FullKey() string { return c.Pkg + "." + c.Key }

func (c *Contract) Of(kind string) []*Clause {
	var out []*Clause
	for _, cl := range c.Clauses {
		if cl.Kind == kind && cl.Loop == 0 {
			out = append(out, cl)
		}
	}
	return out
}

func (c *Contract) OfLoop(kind string, loop int) []*Clause {
	var out []*Clause
	for _, cl := range c.Clauses {
		if cl.Kind == kind && cl.Loop == loop {
			out = append(out, cl)
		}
	}
	return out
}

func (c *Contract) Has(kind string) bool { return len(c.Of(kind)) > 0 }

// SpecDef is a package-level spec definition: macro, uninterpreted function, axiom, ghost variable.
type SpecDef struct {
	Kind   string // define ufun axiom ghost
	Name   string
	Params []string
	Sorts  []string // ufun: argument sorts + result sort; ghost: single sort
	Text   string
	File   string
	Line   int
	Pkg    string
}

type ContractDB struct {
	ByKey map[string]*Contract
	Defs  map[string]*SpecDef // by name (global namespace)
	Axioms []*SpecDef
	Order []*Contract
	Views map[string][2]string
	Pure  []string
	CallerView map[string]*Contract
}

var clauseKinds = map[string]bool{
	"props": true, "mode": true, "requires": true, "ensures": true, "modifies": true,
	"loop": true, "lemma": true, "ghost": true, "panics-when": true, "search-pred": true,
	"replay": true, "replay-reader": true, "returns": true, "callsite": true, "search": true, "reveal": true, "frame-only": true, "trusted": true, "assume": true, "unroll": true, "inline": true,
	"reads": true, "pure": true, "let": true, "assert": true, "nosafety": true,
	"crash-invariant": true, "frame": true, "closure": true, "bound": true, "final": true, "loop-candidates": true, "dynamic": true, "sorted": true,
}

var tagRe = regexp.MustCompile(`^\[([A-Z0-9, ]+)\]\s*`)

func parseContractFile(db *ContractDB, path string, defaultPkg string) error {
	f, err := os.Open(path)
	if err != nil {
		return err
	}
	defer f.Close()
	sc := bufio.NewScanner(f)
	sc.Buffer(make([]byte, 1<<20), 1<<20)
	pkg := defaultPkg
	var cur *Contract
	var last *Clause
	var lastDef *SpecDef
	ln := 0
	for sc.Scan() {
		ln++
		line := strings.TrimSpace(sc.Text())
		if !strings.HasPrefix(line, "//@") {
			if !strings.HasPrefix(line, "//") {
				// a non-comment line ends the current block (package clause, build tag, blank)
			}
			continue
		}
		body := strings.TrimSpace(line[3:])
		if i := strings.Index(body, " //"); i >= 0 { // trailing comment
			body = strings.TrimSpace(body[:i])
		}
		if body == "" {
			continue
		}
		word := body
		rest := ""
		if i := strings.IndexAny(body, " \t"); i >= 0 {
			word = body[:i]
			rest = strings.TrimSpace(body[i+1:])
		}
		switch word {
		case "package":
			pkg = rest
			cur, last, lastDef = nil, nil, nil
			continue
		case "func":
			key := rest
			cpkg := pkg
			// spec files may fully qualify: path/to/pkg.Name or (path/to/pkg.T).Name
			cur = &Contract{Pkg: cpkg, Key: key, File: path, Line: ln, Mode: "int"}
			if old, dup := db.ByKey[cur.FullKey()]; dup {
				if old.Trusted && defaultPkg != "" {
					// a contract in /verif/spec stays the callers' view; the one in /repo is what the body is verified against
					db.CallerView[cur.FullKey()] = old
				} else {
					return fmt.Errorf("%s:%d: duplicate contract for %s", path, ln, cur.FullKey())
				}
			}
			db.ByKey[cur.FullKey()] = cur
			db.Order = append(db.Order, cur)
			last, lastDef = nil, nil
			continue
		case "pure":
			// pure <name or prefix*>: calls have no effect on memory the contracts talk about; results are unconstrained
			db.Pure = append(db.Pure, strings.TrimSpace(rest))
			cur, last, lastDef = nil, nil, nil
			continue
		case "readerview":
			// readerview <pkg.Type> <reader field> <counter field>: *Type used as io.Reader delegates to the field
			f := strings.Fields(rest)
			if len(f) != 3 {
				return fmt.Errorf("%s:%d: readerview <type> <reader field> <counter field>", path, ln)
			}
			db.Views[f[0]] = [2]string{f[1], f[2]}
			cur, last, lastDef = nil, nil, nil
			continue
		case "define", "ufun", "axiom", "ghostvar", "const", "opaque":
			d := &SpecDef{Kind: word, File: path, Line: ln, Pkg: pkg}
			if err := parseDef(d, rest); err != nil {
				return fmt.Errorf("%s:%d: %v", path, ln, err)
			}
			if d.Kind == "axiom" {
				db.Axioms = append(db.Axioms, d)
			} else {
				if _, dup := db.Defs[d.Name]; dup {
					return fmt.Errorf("%s:%d: duplicate spec definition %s", path, ln, d.Name)
				}
				db.Defs[d.Name] = d
			}
			cur, last = nil, nil
			lastDef = d
			continue
		}
		if !clauseKinds[word] {
			// continuation of the previous clause / definition
			if last != nil {
				last.Text += " " + body
				continue
			}
			if lastDef != nil {
				lastDef.Text += " " + body
				continue
			}
			return fmt.Errorf("%s:%d: unknown clause %q", path, ln, word)
		}
		if cur == nil {
			return fmt.Errorf("%s:%d: clause outside a func block", path, ln)
		}
		lastDef = nil
		cl := &Clause{Kind: word, File: path, Line: ln}
		if m := tagRe.FindStringSubmatch(rest); m != nil {
			for _, t := range strings.Split(m[1], ",") {
				cl.Tags = append(cl.Tags, strings.TrimSpace(t))
			}
			rest = rest[len(m[0]):]
		}
		switch word {
		case "props":
			cur.Props = strings.Fields(rest)
			last = nil
			continue
		case "mode":
			cur.Mode = rest
			last = nil
			continue
		case "trusted":
			cur.Trusted = true
			last = nil
			continue
		case "loop":
			// loop N <kind> text
			fs := strings.Fields(rest)
			if len(fs) < 2 {
				return fmt.Errorf("%s:%d: bad loop clause", path, ln)
			}
			n, err := strconv.Atoi(fs[0])
			if err != nil {
				return fmt.Errorf("%s:%d: bad loop ordinal", path, ln)
			}
			cl.Loop = n
			cl.Kind = fs[1]
			r := strings.TrimSpace(rest[len(fs[0]):])
			r = strings.TrimSpace(r[len(fs[1]):])
			if m := tagRe.FindStringSubmatch(r); m != nil {
				for _, t := range strings.Split(m[1], ",") {
					cl.Tags = append(cl.Tags, strings.TrimSpace(t))
				}
				r = r[len(m[0]):]
			}
			cl.Text = r
		case "sorted":
			// sorted N: a, b => less(a, b)   (the less function of the N-th sort.Slice call, as a spec formula in two positions)
			i := strings.Index(rest, ":")
			k := strings.Index(rest, "=>")
			if i < 0 || k < i {
				return fmt.Errorf("%s:%d: sorted N: a, b => less", path, ln)
			}
			n, err := strconv.Atoi(strings.TrimSpace(rest[:i]))
			if err != nil {
				return fmt.Errorf("%s:%d: sorted N: a, b => less", path, ln)
			}
			cl.Loop = 0
			cl.Index = n
			cl.Name = strings.TrimSpace(rest[i+1 : k])
			cl.Text = strings.TrimSpace(rest[k+2:])
			cur.Clauses = append(cur.Clauses, cl)
			last = cl
			continue
		case "search":
			// search N: j => pred(j)    (the predicate of the N-th sort.Search call, as a spec formula in j)
			i := strings.Index(rest, ":")
			k := strings.Index(rest, "=>")
			if i < 0 || k < i {
				return fmt.Errorf("%s:%d: search N: j => pred", path, ln)
			}
			n, err := strconv.Atoi(strings.TrimSpace(rest[:i]))
			if err != nil {
				return fmt.Errorf("%s:%d: search N: j => pred", path, ln)
			}
			cl.Loop = 0
			cl.Index = n
			cl.Name = strings.TrimSpace(rest[i+1 : k])
			cl.Text = strings.TrimSpace(rest[k+2:])
			cur.Clauses = append(cur.Clauses, cl)
			last = cl
			continue
		case "callsite":
			// callsite <callee short name>: expr   (checked at every call of that callee inside this function)
			if i := strings.Index(rest, ":"); i >= 0 {
				cl.Name = strings.TrimSpace(rest[:i])
				cl.Text = strings.TrimSpace(rest[i+1:])
				if j := strings.Index(cl.Name, "["); j >= 0 && strings.HasSuffix(cl.Name, "]") {
					for _, t := range strings.Split(cl.Name[j+1:len(cl.Name)-1], ",") {
						cl.Tags = append(cl.Tags, strings.TrimSpace(t))
					}
					cl.Name = strings.TrimSpace(cl.Name[:j])
				}
			} else {
				return fmt.Errorf("%s:%d: callsite <callee>: <expr>", path, ln)
			}
		case "dynamic":
			// dynamic modifies <items> | dynamic ensures <expr>: ASSUMED effect of calls through function values made by
			// this function (over its own variables)
			fs := strings.Fields(rest)
			if len(fs) < 2 || (fs[0] != "modifies" && fs[0] != "ensures") {
				return fmt.Errorf("%s:%d: dynamic modifies|ensures ...", path, ln)
			}
			cl.Kind = "dyn-" + fs[0]
			cl.Text = strings.TrimSpace(rest[len(fs[0]):])
		case "lemma", "assert", "let":
			// lemma name: text
			if i := strings.Index(rest, ":"); i >= 0 && word != "let" {
				cl.Name = strings.TrimSpace(rest[:i])
				cl.Text = strings.TrimSpace(rest[i+1:])
			} else if word == "let" {
				if i := strings.Index(rest, "="); i >= 0 {
					cl.Name = strings.TrimSpace(rest[:i])
					cl.Text = strings.TrimSpace(rest[i+1:])
				}
			} else {
				cl.Text = rest
			}
		default:
			cl.Text = rest
		}
		for _, o := range cur.Clauses {
			if o.Kind == cl.Kind && o.Loop == cl.Loop {
				cl.Index++
			}
		}
		cl.Index++ // 1-based
		cur.Clauses = append(cur.Clauses, cl)
		last = cl
	}
	return sc.Err()
}

var defHeadRe = regexp.MustCompile(`^([A-Za-z_][A-Za-z0-9_]*)\s*(\(([^)]*)\))?\s*(.*)$`)

func parseDef(d *SpecDef, rest string) error {
	m := defHeadRe.FindStringSubmatch(rest)
	if m == nil {
		return fmt.Errorf("bad definition %q", rest)
	}
	d.Name = m[1]
	args := strings.TrimSpace(m[3])
	tail := strings.TrimSpace(m[4])
	var parts []string
	if args != "" {
		for _, a := range strings.Split(args, ",") {
			parts = append(parts, strings.TrimSpace(a))
		}
	}
	switch d.Kind {
	case "define", "opaque":
		d.Params = parts
		if !strings.HasPrefix(tail, "=") {
			return fmt.Errorf("define %s: missing '='", d.Name)
		}
		d.Text = strings.TrimSpace(tail[1:])
	case "ufun":
		d.Sorts = append(parts, tail) // argument sorts, then result sort
		if tail == "" {
			return fmt.Errorf("ufun %s: missing result sort", d.Name)
		}
	case "ghostvar", "const":
		d.Sorts = []string{tail}
		if tail == "" {
			return fmt.Errorf("%s %s: missing sort", d.Kind, d.Name)
		}
	case "axiom":
		// axiom name: text
		if strings.HasPrefix(tail, ":") {
			d.Text = strings.TrimSpace(tail[1:])
		} else {
			return fmt.Errorf("axiom %s: missing ':'", d.Name)
		}
	}
	return nil
}

func loadContracts(repo string, specDir string, pkgDirs map[string]string) (*ContractDB, error) {
	db := &ContractDB{ByKey: map[string]*Contract{}, Defs: map[string]*SpecDef{}, Views: map[string][2]string{}, CallerView: map[string]*Contract{}}
	specs, _ := filepath.Glob(filepath.Join(specDir, "*.spec"))
	for _, s := range specs {
		if err := parseContractFile(db, s, ""); err != nil {
			return nil, err
		}
	}
	for _, c := range db.Order {
		c.Trusted = true // everything in /verif/spec is assumed
	}
	for pkg, dir := range pkgDirs {
		p := filepath.Join(dir, "contracts_verif.go")
		if _, err := os.Stat(p); err != nil {
			continue
		}
		if err := parseContractFile(db, p, pkg); err != nil {
			return nil, err
		}
	}
	return db, nil
}
