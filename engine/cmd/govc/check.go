package main

import (
	"encoding/json"
	"flag"
	"fmt"
	"os"
	"path/filepath"
	"sort"
	"strconv"
	"strings"
	"time"
)

type Finding struct {
	Property   string `json:"property"`
	Obligation string `json:"obligation"` // <pkg-relative function key>:<obligation name>
	Status     string `json:"status"`     // open | fixed
	What       string `json:"what"`
	Input      string `json:"input,omitempty"`
	Commit     string `json:"commit,omitempty"`
}

type oblOut struct {
	Name    string  `json:"name"`
	Func    string  `json:"func"`
	Kind    string  `json:"kind"`
	Status  string  `json:"status"`
	Solver  string  `json:"solver"`
	Secs    float64 `json:"secs"`
	Bytes   int     `json:"smt_bytes"`
	Pos     string  `json:"pos"`
	Note    string  `json:"note,omitempty"`
	file    string
	output  string
	expect  string
	rep     *FuncReport
	obl     *Obl
}

// lockName: the identity of an obligation for the vacuity guard. Only obligations that come from a contract clause are locked,
// and by clause, not by call-site or instruction ordinal, so that harmless edits of the code do not rename them.
func lockName(fk string, o *Obl) string {
	n := o.Name
	switch o.Kind {
	case "lemma", "inv-entry", "lockframe":
	case "post", "inv-step", "dec":
		if i := strings.Index(n, "/e"); i >= 0 {
			n = n[:i]
		}
		if i := strings.Index(n, "/r"); i >= 0 {
			n = n[:i]
		}
	case "site", "crash":
		// site@Callee#k.j -> site@Callee.j
		if i := strings.Index(n, "#"); i >= 0 {
			if j := strings.Index(n[i:], "."); j >= 0 {
				n = n[:i] + n[i+j:]
			}
		}
	case "ret":
		if i := strings.Index(n, "#"); i >= 0 {
			if j := strings.Index(n[i:], "."); j >= 0 {
				n = n[:i] + n[i+j:]
			}
		}
	default:
		return ""
	}
	return fk + ":" + n
}

func shortKey(full string) string {
	return strings.TrimPrefix(full, repoModule+"/")
}

func hasProp(list []string, p string) bool {
	for _, x := range list {
		if x == p {
			return true
		}
	}
	return false
}

func cmdCheck(args []string) {
	fs := flag.NewFlagSet("check", flag.ExitOnError)
	repo := fs.String("repo", "/repo", "repository")
	verif := fs.String("verif", "/verif", "verif directory")
	prop := fs.String("prop", "", "property id")
	tier := fs.String("tier", "quick", "quick | thorough")
	seedF := fs.Int("seed", 0, "seed")
	writeLock := fs.Bool("write-lock", false, "rewrite obligations.lock for this property from the current run")
	keep := fs.Bool("keep", false, "keep scratch dir")
	noReplay := fs.Bool("no-replay", false, "skip replay of counterexamples")
	fs.Parse(args)
	if *prop == "" {
		fmt.Fprintln(os.Stderr, "check: -prop required")
		os.Exit(2)
	}
	if s := os.Getenv("VERIF_SEED"); s != "" {
		if n, err := strconv.Atoi(s); err == nil {
			*seedF = n
		}
	}
	if t := os.Getenv("VERIF_TIER"); t == "quick" || t == "thorough" {
		*tier = t
	}
	timeout := 20 * time.Second
	if *tier == "thorough" {
		timeout = 60 * time.Second
	}
	t0 := time.Now()
	scratch := mkScratch()
	if !*keep {
		defer os.RemoveAll(scratch)
	}
	code := runCheck(*repo, *verif, *prop, *tier, *seedF, timeout, scratch, *writeLock, *noReplay, t0)
	if !*keep {
		os.RemoveAll(scratch)
	}
	os.Exit(code)
}

func loadFindings(verif string) []Finding {
	var fs []Finding
	b, err := os.ReadFile(filepath.Join(verif, "known_findings.json"))
	if err != nil {
		return nil
	}
	if err := json.Unmarshal(b, &fs); err != nil {
		fmt.Fprintln(os.Stderr, "known_findings.json:", err)
		os.Exit(2)
	}
	return fs
}

func loadLock(verif, prop string) map[string]bool {
	b, err := os.ReadFile(filepath.Join(verif, "obligations.lock"))
	if err != nil {
		return nil
	}
	var all map[string][]string
	if err := json.Unmarshal(b, &all); err != nil {
		fmt.Fprintln(os.Stderr, "obligations.lock:", err)
		os.Exit(2)
	}
	l, ok := all[prop]
	if !ok {
		return nil
	}
	m := map[string]bool{}
	for _, n := range l {
		m[n] = true
	}
	return m
}

func saveLock(verif, prop string, names []string) {
	p := filepath.Join(verif, "obligations.lock")
	all := map[string][]string{}
	if b, err := os.ReadFile(p); err == nil {
		json.Unmarshal(b, &all)
	}
	sort.Strings(names)
	all[prop] = names
	b, _ := json.MarshalIndent(all, "", " ")
	os.WriteFile(p, append(b, '\n'), 0o644)
}

func runCheck(repo, verif, prop, tier string, seed int, timeout time.Duration, scratch string, writeLock, noReplay bool, t0 time.Time) int {
	w, err := loadWorld(repo, filepath.Join(verif, "spec"), scratch, []string{"./pkg/...", "./cmd/..."})
	violations := 0
	var lines []string
	emitViolation := func(name, reason, solverOut string, extra map[string]interface{}, noInput bool) {
		violations++
		dir := filepath.Join(verif, "replays", prop)
		os.MkdirAll(dir, 0o755)
		path := filepath.Join(dir, sanitize(name)+".json")
		rec := map[string]interface{}{"property": prop, "obligation": name, "reason": reason, "solver_output": solverOut}
		for k, v := range extra {
			rec[k] = v
		}
		b, _ := json.MarshalIndent(rec, "", " ")
		os.WriteFile(path, b, 0o644)
		l := fmt.Sprintf("VIOLATION property=%s replay=%s obligation=%s %s", prop, path, name, reason)
		if noInput {
			l += " no-failing-input-found"
		}
		lines = append(lines, l)
		fmt.Println(l)
	}
	if err != nil {
		// the tree does not load (type error in /repo or in a contract file): nothing can be proved
		emitViolation("load", "cannot load /repo with tag verif: "+firstLines(err.Error(), 5), err.Error(), nil, true)
		writeEvidence(verif, prop, tier, seed, nil, nil, nil, time.Since(t0).Seconds(), violations, nil, w)
		return 1
	}
	w.exactConv = false
	findings := loadFindings(verif)
	lock := loadLock(verif, prop)
	var outs []*oblOut
	var reps []*FuncReport
	var funcErrs []string
	generated := map[string]bool{}
	for _, con := range w.DB.Order {
		if con.Trusted || !hasProp(con.Props, prop) {
			continue
		}
		rep := verifyOne(w, con, scratch, timeout, nil)
		reps = append(reps, rep)
		fk := shortKey(con.FullKey())
		if rep.Err != nil {
			funcErrs = append(funcErrs, fk+": "+rep.Err.Error())
			// a function under contract that cannot be processed: every locked obligation of it is undischarged
			n := 0
			for name := range lock {
				if strings.HasPrefix(name, fk+":") {
					n++
				}
			}
			emitViolation(fk+":generation", "function left the verifiable subset or its contract no longer applies: "+rep.Err.Error(), rep.Err.Error(), map[string]interface{}{"locked_obligations": n}, true)
			continue
		}
		// keep obligations of this property
		var keepO []*Obl
		for _, o := range rep.VC.obls {
			if len(o.Tags) == 0 || hasProp(o.Tags, prop) {
				keepO = append(keepO, o)
			}
		}
		rep.VC.obls = keepO
	}
	// obligations recorded as open findings are expected to stay undischarged: no second, longer attempt for them
	skipRetry = map[string]bool{}
	for _, f := range findings {
		if f.Property == prop && f.Status == "open" {
			skipRetry[f.Obligation] = true
		}
	}
	solveReports(reps, scratch, timeout, 5)
	for _, rep := range reps {
		if rep.Err != nil {
			continue
		}
		fk := shortKey(rep.Key)
		for i, o := range rep.VC.obls {
			r := rep.Results[i]
			oo := &oblOut{Name: fk + ":" + o.Name, Func: fk, Kind: o.Kind, Status: r.Status, Solver: r.Solver, Secs: r.Secs, Bytes: r.Bytes,
				Pos: fmt.Sprintf("%s:%d", strings.TrimPrefix(o.Pos.Filename, repo+"/"), o.Pos.Line), Note: o.Note, file: r.File, output: r.Output, expect: o.Expect, rep: rep, obl: o}
			outs = append(outs, oo)
			if ln := lockName(fk, o); ln != "" {
				generated[ln] = true
			}
		}
	}
	// verdicts
	nObl, nDis := 0, 0
	bySolver := map[string]int{}
	var solverSecs, maxSecs float64
	var known []string
	for _, o := range outs {
		if o.expect == "sat" {
			// vacuity: only a definite unsat is a failure
			if o.Status == "unsat" {
				emitViolation(o.Name, "precondition/invariant is contradictory (vacuous proof)", o.output, nil, true)
			}
			continue
		}
		nObl++
		solverSecs += o.Secs
		if o.Secs > maxSecs {
			maxSecs = o.Secs
		}
		if o.Status == "unsat" {
			nDis++
			bySolver[o.Solver]++
			if o.Secs > 5 {
				fmt.Printf("SLOW %.1fs %s (%s)\n", o.Secs, o.Name, o.Solver)
			}
			continue
		}
		// undischarged
		matched := false
		for _, f := range findings {
			if f.Property == prop && f.Status == "open" && f.Obligation == o.Name {
				l := fmt.Sprintf("KNOWN-FINDING: property=%s %s %s", prop, o.Name, f.What)
				fmt.Println(l)
				known = append(known, o.Name)
				matched = true
			}
		}
		if matched {
			// an obligation recorded as an open finding is not part of the proof that is claimed: it is reported on its own
			// (coverage.known_findings_hit) and not counted among the obligations of the proof
			nObl--
			continue
		}
		extra := map[string]interface{}{"pos": o.Pos, "note": o.Note, "status": o.Status, "smt_file_bytes": o.Bytes}
		noInput := true
		if !noReplay {
			if rp := tryReplay(w, o, scratch, verif); rp != nil {
				for k, v := range rp {
					extra[k] = v
				}
				if b, ok := rp["reproduced"].(bool); ok && b {
					noInput = false
				}
			}
		}
		reason := "obligation not discharged (" + o.Status + "): " + o.Note
		emitViolation(o.Name, reason, o.output, extra, noInput)
	}
	// lock: every locked obligation must have been generated
	if writeLock {
		var names []string
		for n := range generated {
			names = append(names, n)
		}
		saveLock(verif, prop, names)
	} else if lock != nil {
		var missing []string
		for n := range lock {
			if !generated[n] {
				missing = append(missing, n)
			}
		}
		sort.Strings(missing)
		// group by function so one structural change is one report
		byFn := map[string][]string{}
		for _, m := range missing {
			fn := m[:strings.Index(m, ":")]
			byFn[fn] = append(byFn[fn], m)
		}
		for fn, ms := range byFn {
			skip := false
			for _, fe := range funcErrs {
				if strings.HasPrefix(fe, fn+":") {
					skip = true // already reported as generation failure
				}
			}
			if skip {
				continue
			}
			emitViolation(fn+":lock", fmt.Sprintf("%d obligations recorded in obligations.lock are no longer generated (%s ...): the code under contract changed shape", len(ms), ms[0]), strings.Join(ms, "\n"), nil, true)
		}
	} else if len(outs) == 0 {
		emitViolation("none", "no obligations generated for this property", "", nil, true)
	}
	writeEvidence(verif, prop, tier, seed, outs, reps, known, time.Since(t0).Seconds(), violations, bySolver, w)
	fmt.Printf("property %s: %d obligations, %d discharged, %d known findings, %d violations, solver %.1fs (max %.2fs), wall %.1fs\n",
		prop, nObl, nDis, len(known), violations, solverSecs, maxSecs, time.Since(t0).Seconds())
	if violations > 0 {
		return 1
	}
	return 0
}

func writeEvidence(verif, prop, tier string, seed int, outs []*oblOut, reps []*FuncReport, known []string, wall float64, violations int, bySolver map[string]int, w *World) {
	// statuses are final here: freeze them so that the counts and the samples of this record agree with each other
	nObl, nDis := 0, 0
	var samples []interface{}
	var solverSecs, maxSecs float64
	kinds := map[string]int{}
	isKnown := map[string]bool{}
	for _, k := range known {
		isKnown[k] = true
	}
	for _, o := range outs {
		if o.expect == "sat" {
			continue
		}
		if isKnown[o.Name] && o.Status != "unsat" {
			continue // an open finding: reported in known_findings_hit, not part of the claimed proof
		}
		nObl++
		kinds[o.Kind]++
		if o.Status == "unsat" {
			nDis++
		}
		solverSecs += o.Secs
		if o.Secs > maxSecs {
			maxSecs = o.Secs
		}
	}
	// samples: a spread of obligations (seeded rotation)
	if len(outs) > 0 {
		step := len(outs)/6 + 1
		for i := seed % step; i < len(outs) && len(samples) < 8; i += step {
			o := outs[i]
			samples = append(samples, map[string]interface{}{"obligation": o.Name, "kind": o.Kind, "status": o.Status, "solver": o.Solver, "secs": round3(o.Secs), "smt_bytes": o.Bytes, "pos": o.Pos, "text": o.Note})
		}
	}
	var funcs []interface{}
	var oos []string
	trusted := map[string]bool{}
	havocked := map[string]bool{}
	modelNotes := map[string]bool{}
	for _, r := range reps {
		if r.Err != nil {
			oos = append(oos, shortKey(r.Key)+": "+r.Err.Error())
			continue
		}
		cnt := 0
		for _, o := range r.VC.obls {
			if o.Expect != "sat" {
				cnt++
			}
		}
		funcs = append(funcs, map[string]interface{}{"func": shortKey(r.Key), "obligations": cnt, "inlined": sortedKeys(r.VC.inlined), "havocked_callees": sortedKeys(r.VC.havocked), "callee_contracts_used": sortedKeys(r.VC.usedCons), "gen_secs": round3(r.GenSecs)})
		for k := range r.VC.usedCons {
			if w != nil {
				if c, ok := w.DB.ByKey[k]; ok && c.Trusted {
					trusted[k] = true
				}
			}
		}
		for k := range r.VC.havocked {
			havocked[k] = true
		}
		for k := range r.VC.modelNotes {
			modelNotes[k] = true
		}
	}
	tb := []string{
		"golang.org/x/tools/go/ssa v0.29.0 (naive form) lowers /repo faithfully; govc's encoding of each SSA instruction",
		"SMT solvers (z3 4.8.12, z3 5.1.0, cvc5 1.0.3) are sound when answering unsat",
		"slice extents (offset+capacity) are below 2^62; int is 64 bit",
	}
	for _, k := range sortedKeys(trusted) {
		tb = append(tb, "assumed contract (not verified): "+k)
	}
	assumptions := []string{
		"built-in models of encoding/binary.BigEndian, io.Reader/io.ReadFull (any short read, data+EOF), append growth, copy, fmt.Errorf/errors.Is are assumed faithful",
		"integer arithmetic is exact machine arithmetic (wrap-around modelled), not mathematical",
	}
	for _, k := range sortedKeys(havocked) {
		assumptions = append(assumptions, "callee without contract, result havocked: "+k)
	}
	for _, k := range sortedKeys(modelNotes) {
		assumptions = append(assumptions, k)
	}
	ev := map[string]interface{}{
		"property_id": prop, "tier": tier, "seed": seed, "level": "proof", "wall_s": round3(wall), "violations": violations,
		"coverage": map[string]interface{}{
			"obligations": nObl, "discharged": nDis,
			"checker_cmd":  "/verif/bin/govc check -prop " + prop + " -tier " + tier,
			"trusted_base": tb,
			"samples":      samples,
			"functions_under_contract": funcs,
			"by_solver":      bySolver,
			"by_kind":        kinds,
			"solver_seconds_total": round3(solverSecs), "solver_seconds_max": round3(maxSecs),
			"out_of_subset":  oos,
			"known_findings_hit": known,
			"bounded":        []interface{}{},
		},
		"assumptions": assumptions,
	}
	os.MkdirAll(filepath.Join(verif, "evidence"), 0o755)
	b, _ := json.MarshalIndent(ev, "", " ")
	os.WriteFile(filepath.Join(verif, "evidence", prop+".json"), append(b, '\n'), 0o644)
}

func round3(f float64) float64 { return float64(int(f*1000+0.5)) / 1000 }

// tryReplay is filled in by replay.go
