package main

import (
	"fmt"
	"go/token"
	"go/types"
	"strings"

	"golang.org/x/tools/go/ssa"
)

func (vc *VC) errConst(name string) string {
	c := "err_" + sanitize(name)
	if !vc.declSet[c] {
		vc.declare(c, "Int")
		k, ok := vc.W.globalIDs["err:"+name]
		if !ok {
			k = len(vc.W.globalIDs) + 1
			vc.W.globalIDs["err:"+name] = k
		}
		// sentinel errors: fixed distinct negative ids (non-nil, never equal to an allocated error)
		vc.addAssert(Eq(c, numI(int64(-k))))
	}
	return c
}

func isErrorType(t types.Type) bool {
	return types.Identical(t, types.Universe.Lookup("error").Type())
}

func (vc *VC) frameCheck(st *State, a *Addr) {
	if vc.modset == nil || vc.modset.All || vc.dry {
		return
	}
	var goal string
	switch a.Kind {
	case AField:
		fam, _ := fieldPathName(a.Root, a.Path)
		key := "F_" + typeKey(a.Root) + fam
		alts := []string{Gt(a.Obj, vc.entryAlloc)}
		for _, k := range sortedFieldKeys(vc.modset.Fields) {
			objs := vc.modset.Fields[k]
			if k == key || strings.HasPrefix(key, k+"_") || k == "F_"+typeKey(a.Root) {
				for _, o := range objs {
					alts = append(alts, Eq(a.Obj, o))
				}
			}
		}
		goal = Or(alts...)
	case ABox:
		alts := []string{Gt(a.Obj, vc.entryAlloc), Lt(a.Obj, "0")}
		for _, o := range vc.modset.Boxes {
			alts = append(alts, Eq(a.Obj, o))
		}
		goal = Or(alts...)
	case AElem:
		names, _, _ := vc.cellArrays(a)
		if len(names) > 0 {
			vc.curFamily = names[0]
		}
		goal = vc.regionWritable(a.Reg, a.Idx, Add(a.Idx, "1"))
		vc.curFamily = ""
	default:
		return
	}
	k := vc.count("frame")
	vc.addObl("frame", fmt.Sprintf("frame#%d", k), st, goal, token.NoPos, nil, "write outside the declared modifies set")
}

// regionWritable: indices [lo,hi) of region reg are fresh or inside a declared window.
func (vc *VC) regionWritable(reg, lo, hi string) string {
	if vc.modset == nil || vc.modset.All {
		return T
	}
	alts := []string{Gt(reg, vc.entryAlloc), Ge(lo, hi)}
	if vc.curFamily != "" && familyOf(vc.modset, vc.curFamily) {
		return T
	}
	for _, m := range vc.modset.Regions {
		alts = append(alts, And(Eq(reg, m.Reg), Le(m.Lo, lo), Le(hi, m.Hi)))
	}
	return Or(alts...)
}

func (vc *VC) frameCheckRange(st *State, reg, lo, hi string) {
	if vc.modset == nil || vc.modset.All || vc.dry {
		return
	}
	k := vc.count("frame")
	vc.addObl("frame", fmt.Sprintf("frame#%d", k), st, vc.regionWritable(reg, lo, hi), token.NoPos, nil, "write outside the declared modifies set")
}

func elemHeapNames(et types.Type) (names, sorts []string) {
	for _, c := range flatten(et) {
		names = append(names, "E_"+typeKey(et)+c.Suffix)
		sorts = append(sorts, c.Sort)
		if c.Ref {
			pendingRefs[names[len(names)-1]] = true
		}
	}
	return
}

// pendingRefs: reference-typed element heaps seen through elemHeapNames (merged into the VC's table on use)
var pendingRefs = map[string]bool{}

// allocRegion creates a fresh zeroed region for elements of type et.
func (vc *VC) allocRegion(st *State, et types.Type) string {
	id := vc.newObj(st)
	names, sorts := elemHeapNames(et)
	z := zeroVal(et).comps()
	for i, n := range names {
		h := vc.heapGet(st, n, arr2Sort(sorts[i]))
		vc.heapSet(st, n, arr2Sort(sorts[i]), Sto(h, id, fmt.Sprintf("((as const (Array Int %s)) %s)", sorts[i], z[i])))
	}
	return id
}

func (vc *VC) allocObject(st *State, t types.Type) Val {
	// t is the allocated type (struct, array or a boxed scalar)
	if arr, ok := isArrayT(t); ok {
		id := vc.allocRegion(st, arr.Elem())
		return IntV(id, types.NewPointer(t))
	}
	id := vc.newObj(st)
	a := &Addr{Kind: ABox, Obj: id, Root: t, T: t}
	if isStructT(t) {
		a.Kind = AField
	}
	saved := vc.modset
	vc.modset = nil
	if !isOpaqueNamed(t) {
		vc.store(st, a, zeroVal(t))
	}
	vc.modset = saved
	if isStructT(t) {
		return IntV(id, types.NewPointer(t))
	}
	return Val{K: KAddr, T: types.NewPointer(t), A: a}
}

func (vc *VC) idxCheck(st *State, idx, n string, p token.Pos, what string) {
	k := vc.count("idx")
	g := And(Le("0", idx), Lt(idx, n))
	if vc.depth == 0 && vc.Con != nil && vc.Con.Has("nosafety") {
		// "nosafety": index obligations of this function are not generated; what is proved about it holds for the
		// executions that do not panic on an index (reported as an assumption)
		vc.note("index-in-range obligations of " + vc.Fn.Name() + " are not generated (contract says nosafety): its other obligations are proved for executions that do not panic on an index")
		st.assume(vc, g)
		return
	}
	vc.addObl("idx", fmt.Sprintf("idx#%d", k), st, g, p, nil, what)
	st.assume(vc, g)
}

func (vc *VC) sliceOp(st *State, in *ssa.Slice) Val {
	x := vc.get(st, in.X)
	var lo, hi, max string
	if in.Low != nil {
		lo = vc.get(st, in.Low).S
	} else {
		lo = "0"
	}
	xt := in.X.Type()
	if isString(xt) {
		n := app("slen", x.S)
		if in.High != nil {
			hi = vc.get(st, in.High).S
		} else {
			hi = n
		}
		k := vc.count("slice")
		g := And(Le("0", lo), Le(lo, hi), Le(hi, n))
		vc.addObl("slice", fmt.Sprintf("slice#%d", k), st, g, in.Pos(), nil, "string slice bounds")
		st.assume(vc, g)
		return IntV(vc.substr(st, x.S, lo, hi), in.Type())
	}
	var base Val
	if pt, ok := xt.Underlying().(*types.Pointer); ok {
		arr := pt.Elem().Underlying().(*types.Array)
		vc.nilCheck(st, x, "slice of nil array pointer")
		n := numI(arr.Len())
		base = SliceV(x.S, "0", n, n, in.Type())
	} else {
		base = x
	}
	if in.High != nil {
		hi = vc.get(st, in.High).S
	} else {
		hi = base.Len
	}
	limit := base.Cap
	newCap := Sub(base.Cap, lo)
	var g string
	if in.Max != nil {
		max = vc.get(st, in.Max).S
		g = And(Le("0", lo), Le(lo, hi), Le(hi, max), Le(max, base.Cap))
		newCap = Sub(max, lo)
	} else {
		g = And(Le("0", lo), Le(lo, hi), Le(hi, limit))
	}
	k := vc.count("slice")
	vc.addObl("slice", fmt.Sprintf("slice#%d", k), st, g, in.Pos(), nil, "slice bounds out of range")
	st.assume(vc, g)
	return SliceV(base.Reg, vc.name("off", "Int", Add(base.Off, lo)), vc.name("len", "Int", Sub(hi, lo)), vc.name("cap", "Int", newCap), in.Type())
}

func (vc *VC) substr(st *State, s, lo, hi string) string {
	vc.needStr()
	r := vc.fresh("sub", "Int")
	vc.define(Eq(app("slen", r), Ite(Ge(Sub(hi, lo), "0"), Sub(hi, lo), "0")))
	vc.define(fmt.Sprintf("(forall ((i Int)) (! (=> (and (<= 0 i) (< i (- %s %s))) (= (sbyte %s i) (sbyte %s (+ %s i)))) :pattern ((sbyte %s i))))", hi, lo, r, s, lo, r))
	return r
}

func (vc *VC) makeSlice(st *State, in *ssa.MakeSlice) Val {
	l := vc.get(st, in.Len).S
	c := vc.get(st, in.Cap).S
	et := in.Type().Underlying().(*types.Slice).Elem()
	k := vc.count("make")
	g := And(Le("0", l), Le(l, c), Le(Mul(c, numI(elemSize(et))), numI(1<<47)))
	vc.addObl("make", fmt.Sprintf("make#%d", k), st, g, in.Pos(), nil, "make: len out of range")
	st.assume(vc, g)
	id := vc.allocRegion(st, et)
	vc.ghostAlloc(st, Mul(c, numI(elemSize(et))))
	return SliceV(id, "0", l, c, in.Type())
}

// copyRange: dst region contents [doff, doff+n) := src contents [soff, soff+n), elementwise over every component heap.
func (vc *VC) copyRange(st *State, et types.Type, dreg, doff, sreg, soff, n string) {
	names, sorts := elemHeapNames(et)
	for i, nm := range names {
		h := vc.heapGet(st, nm, arr2Sort(sorts[i]))
		src := vc.name("src", arrSort(sorts[i]), Sel(h, sreg))
		old := vc.name("old", arrSort(sorts[i]), Sel(h, dreg))
		na := vc.fresh("cp", arrSort(sorts[i]))
		vc.define(fmt.Sprintf("(forall ((i Int)) (! (= (select %s i) (ite (and (<= %s i) (< i (+ %s %s))) (select %s (+ %s (- i %s))) (select %s i))) :pattern ((select %s i))))",
			na, doff, doff, n, src, soff, doff, old, na))
		vc.heapSet(st, nm, arr2Sort(sorts[i]), Sto(h, dreg, na))
		if nm == byteHeap && vc.axiomSet["sum16_inj"] {
			// copying a whole checksum copies its id (saves the solver sixteen instantiations of the copy axiom)
			vc.define(Imp(Eq(n, "16"), Eq(app("sid16", st.heap[nm], dreg, doff), app("sid16", h, sreg, soff))))
		}
	}
}

func (vc *VC) builtinCopy(st *State, dst, src Val, srcIsString bool, et types.Type) Val {
	vc.curFamily = "E_" + typeKey(et)
	defer func() { vc.curFamily = "" }()
	var n string
	if srcIsString {
		sl := app("slen", src.S)
		n = vc.name("n", "Int", Ite(Le(dst.Len, sl), dst.Len, sl))
		vc.frameCheckRange(st, dst.Reg, dst.Off, Add(dst.Off, n))
		h := vc.byteHeapGet(st)
		old := vc.name("old", "(Array Int Int)", Sel(h, dst.Reg))
		na := vc.fresh("cp", "(Array Int Int)")
		vc.define(fmt.Sprintf("(forall ((i Int)) (! (= (select %s i) (ite (and (<= %s i) (< i (+ %s %s))) (sbyte %s (- i %s)) (select %s i))) :pattern ((select %s i))))",
			na, dst.Off, dst.Off, n, src.S, dst.Off, old, na))
		vc.heapSet(st, byteHeap, arr2Sort("Int"), Sto(h, dst.Reg, na))
		return IntV(n, types.Typ[types.Int])
	}
	n = vc.name("n", "Int", Ite(Le(dst.Len, src.Len), dst.Len, src.Len))
	vc.frameCheckRange(st, dst.Reg, dst.Off, Add(dst.Off, n))
	vc.copyRange(st, et, dst.Reg, dst.Off, src.Reg, src.Off, n)
	return IntV(n, types.Typ[types.Int])
}

func (vc *VC) builtinAppend(st *State, s, add Val, addIsString bool, t types.Type) Val {
	et := t.Underlying().(*types.Slice).Elem()
	vc.curFamily = "E_" + typeKey(et)
	defer func() { vc.curFamily = "" }()
	var n string
	if addIsString {
		n = app("slen", add.S)
	} else {
		n = add.Len
	}
	newLen := vc.name("alen", "Int", Add(s.Len, n))
	fits := Le(newLen, s.Cap)
	// in-place branch and growth branch are merged by ite on every component
	stIn := st.clone()
	stIn.assume(vc, fits)
	vc.frameCheckRange(stIn, s.Reg, Add(s.Off, s.Len), Add(s.Off, newLen))
	if addIsString {
		vc.builtinCopy(stIn, SliceV(s.Reg, Add(s.Off, s.Len), n, n, t), add, true, et)
	} else {
		vc.copyRange(stIn, et, s.Reg, Add(s.Off, s.Len), add.Reg, add.Off, n)
	}
	stGr := st.clone()
	stGr.assume(vc, Not(fits))
	id := vc.allocRegion(stGr, et)
	ncap := vc.fresh("ncap", "Int")
	// growth: at least what is needed and at least 1.25 times the old capacity (runtime.growslice: doubling below 256
	// elements, +25% (+192) above, rounded up to a size class), at most twice the needed length plus a constant
	stGr.assume(vc, And(Ge(ncap, newLen), Ge(Mul("4", ncap), Mul("5", s.Cap)), Le(ncap, Add(Mul("2", newLen), "1024"))))
	vc.ghostAlloc(stGr, Mul(ncap, numI(elemSize(et))))
	saved := vc.modset
	vc.modset = nil
	vc.copyRange(stGr, et, id, "0", s.Reg, s.Off, s.Len)
	if addIsString {
		vc.builtinCopy(stGr, SliceV(id, s.Len, n, n, t), add, true, et)
	} else {
		vc.copyRange(stGr, et, id, s.Len, add.Reg, add.Off, n)
	}
	vc.modset = saved
	m := vc.mergeStates("append", []*State{stIn, stGr})
	// mergeStates ORs the pcs: equals the original pc with the case split
	*st = *m
	res := mergeVals(vc, "app", []string{stIn.pc, stGr.pc}, []Val{
		SliceV(s.Reg, s.Off, newLen, s.Cap, t),
		SliceV(id, "0", newLen, ncap, t)})
	return res
}

// tempSlice builds a one-element slice holding v (used for append(s, v) via varargs is handled by SSA itself).

func (vc *VC) mapHeap(mt *types.Map) (dom string, vals []string, sorts []string) {
	k := typeKey(mt)
	dom = "M_" + k + "_dom"
	for _, c := range flatten(mt.Elem()) {
		vals = append(vals, "M_"+k+"_val"+c.Suffix)
		sorts = append(sorts, c.Sort)
	}
	return
}

func mapKeyTerm(v Val) string {
	if v.K != KInt {
		panic(unsupported("map key of non-scalar kind"))
	}
	return v.S
}

func (vc *VC) mapLookup(st *State, m Val, mt *types.Map, key Val) (Val, string) {
	dom, vals, sorts := vc.mapHeap(mt)
	k := mapKeyTerm(key)
	d := vc.heapGet(st, dom, "(Array Int (Array Int Bool))")
	present := vc.name("has", "Bool", And(Ne(m.S, "0"), Sel(Sel(d, m.S), k)))
	cs := make([]string, len(vals))
	z := zeroVal(mt.Elem()).comps()
	for i, n := range vals {
		h := vc.heapGet(st, n, arr2Sort(sorts[i]))
		cs[i] = vc.name("mv", sorts[i], Ite(present, Sel(Sel(h, m.S), k), z[i]))
	}
	v, _ := rebuild(mt.Elem(), cs)
	st.assume(vc, vc.valid(st, v))
	return v, present
}

func (vc *VC) mapUpdate(st *State, m Val, mt *types.Map, key, val Val) {
	dom, vals, sorts := vc.mapHeap(mt)
	k := mapKeyTerm(key)
	d := vc.heapGet(st, dom, "(Array Int (Array Int Bool))")
	vc.heapSet(st, dom, "(Array Int (Array Int Bool))", Sto(d, m.S, Sto(Sel(d, m.S), k, T)))
	cs := val.comps()
	for i, n := range vals {
		h := vc.heapGet(st, n, arr2Sort(sorts[i]))
		vc.heapSet(st, n, arr2Sort(sorts[i]), Sto(h, m.S, Sto(Sel(h, m.S), k, cs[i])))
	}
}

func (vc *VC) makeMap(st *State, t types.Type) Val {
	mt := t.Underlying().(*types.Map)
	id := vc.newObj(st)
	dom, _, _ := vc.mapHeap(mt)
	d := vc.heapGet(st, dom, "(Array Int (Array Int Bool))")
	vc.heapSet(st, dom, "(Array Int (Array Int Bool))", Sto(d, id, "((as const (Array Int Bool)) false)"))
	return IntV(id, t)
}

func (vc *VC) instr(st *State, in ssa.Instruction) {
	vc.curInstr = in
	switch x := in.(type) {
	case *ssa.DebugRef:
	case *ssa.Alloc:
		t := derefType(x.Type())
		_, isArr := isArrayT(t)
		if x.Heap || vc.escaped[x] || isArr {
			vc.vals[x] = vc.allocObject(st, t)
			return
		}
		st.locals[x] = zeroVal(t)
		vc.vals[x] = Val{K: KAddr, T: x.Type(), A: &Addr{Kind: ALocal, Alloc: x, T: t}}
	case *ssa.Store:
		av := vc.get(st, x.Addr)
		v := vc.get(st, x.Val)
		if v.K == KFunc && !(av.K == KAddr && av.A.Kind == ALocal) {
			// a function value stored in memory: an opaque non-nil id (it can no longer be called symbolically)
			id := vc.fresh("fn", "Int")
			st.assume(vc, Lt(id, "0"))
			v = IntV(id, x.Val.Type())
		}
		if av.K == KInt {
			vc.nilCheck(st, av, "store through nil pointer")
			if vc.snapTypes[typeKey(derefType(x.Addr.Type()))] {
				panic(unsupported("write through a %s pointer in a function that keeps addresses of slice elements in variables", x.Addr.Type()))
			}
		}
		if v.K == KAddr && v.A.Kind == AElem && len(v.A.Path) == 0 && !isStructT(v.A.T) {
			// the address of a slice element kept in a variable: from here on the pointer denotes a cell of its own that
			// holds the element's current value (pointer variables stay mergeable with nil and across loops). Exact as long
			// as the element is not written while the pointer is in use: reported as an assumption; writes through such
			// pointers are out of subset
			id := vc.newObj(st)
			content := vc.load(st, v.A)
			saved := vc.modset
			vc.modset = nil
			vc.store(st, &Addr{Kind: ABox, Obj: id, Root: v.A.T, T: v.A.T}, content)
			vc.modset = saved
			if vc.snapTypes == nil {
				vc.snapTypes = map[string]bool{}
			}
			vc.snapTypes[typeKey(v.A.T)] = true
			vc.note("addresses of slice elements are kept in pointer variables (" + vc.Fn.Name() + "): such a pointer is modelled as a cell of its own holding the element's value at that moment, i.e. the element is assumed not to be written through the slice while the pointer is in use")
			v = IntV(id, x.Val.Type())
		}
		if arr, isArr := isArrayT(derefType(x.Addr.Type())); isArr && av.K == KInt {
			// array assignment: copy contents into the destination region
			saved := vc.modset
			vc.modset = nil
			vc.copyRange(st, arr.Elem(), av.S, "0", v.S, "0", numI(arr.Len()))
			vc.modset = saved
			return
		}
		a := vc.addrOf(st, av, x.Addr.Type())
		if _, isArr := isArrayT(a.T); isArr {
			panic(unsupported("store of array value into the heap"))
		}
		vc.store(st, a, v)
	case *ssa.UnOp:
		vc.vals[x] = vc.unop(st, x)
	case *ssa.BinOp:
		vc.vals[x] = vc.binop(st, x)
	case *ssa.Convert:
		vc.vals[x] = vc.convert(st, x)
	case *ssa.ChangeType:
		v := vc.get(st, x.X)
		v.T = x.Type()
		vc.vals[x] = v
	case *ssa.ChangeInterface:
		v := vc.get(st, x.X)
		v.T = x.Type()
		vc.vals[x] = v
	case *ssa.MakeInterface:
		v := vc.get(st, x.X)
		switch {
		case v.K == KInt && (isPointerLike(x.X.Type()) || isOpaqueNamed(x.X.Type())):
			iv := IntV(v.S, x.Type())
			iv.Dyn = x.X.Type()
			vc.vals[x] = iv
		default:
			id := vc.fresh("iface", "Int")
			st.assume(vc, Lt(id, "0")) // boxed scalars: non-nil, not an allocated object
			if isString(x.X.Type()) && v.K == KInt {
				// a string boxed in an interface keeps its value (spec function ifaceStr)
				vc.declareFun("ifaceStr", []string{"Int"}, "Int")
				vc.define(Eq(app("ifaceStr", id), v.S))
			}
			vc.vals[x] = IntV(id, x.Type())
		}
	case *ssa.FieldAddr:
		b := vc.get(st, x.X)
		st0 := derefType(x.X.Type())
		ft := st0.Underlying().(*types.Struct).Field(x.Field).Type()
		if b.K == KInt {
			vc.nilCheck(st, b, "field access through nil pointer")
			vc.vals[x] = Val{K: KAddr, T: x.Type(), A: &Addr{Kind: AField, Obj: b.S, Root: st0, Path: []int{x.Field}, T: ft}}
			return
		}
		na := *b.A
		na.Path = append(append([]int(nil), b.A.Path...), x.Field)
		na.T = ft
		if na.Root == nil {
			na.Root = st0
		}
		vc.vals[x] = Val{K: KAddr, T: x.Type(), A: &na}
	case *ssa.Field:
		b := vc.get(st, x.X)
		vc.vals[x] = b.Fs[x.Field]
	case *ssa.IndexAddr:
		b := vc.get(st, x.X)
		i := vc.get(st, x.Index).S
		if pt, ok := x.X.Type().Underlying().(*types.Pointer); ok {
			arr := pt.Elem().Underlying().(*types.Array)
			vc.nilCheck(st, b, "index of nil array pointer")
			vc.idxCheck(st, i, numI(arr.Len()), x.Pos(), "array index out of range")
			vc.vals[x] = Val{K: KAddr, T: x.Type(), A: &Addr{Kind: AElem, Reg: b.S, Idx: i, Root: arr.Elem(), T: arr.Elem()}}
			return
		}
		et := x.X.Type().Underlying().(*types.Slice).Elem()
		vc.idxCheck(st, i, b.Len, x.Pos(), "index out of range")
		vc.vals[x] = Val{K: KAddr, T: x.Type(), A: &Addr{Kind: AElem, Reg: b.Reg, Idx: vc.name("ix", "Int", Add(b.Off, i)), Root: et, T: et}}
	case *ssa.Index:
		b := vc.get(st, x.X)
		i := vc.get(st, x.Index).S
		if isString(x.X.Type()) {
			vc.idxCheck(st, i, app("slen", b.S), x.Pos(), "string index out of range")
			vc.vals[x] = IntV(app("sbyte", b.S, i), x.Type())
			return
		}
		arr := x.X.Type().Underlying().(*types.Array)
		vc.idxCheck(st, i, numI(arr.Len()), x.Pos(), "array index out of range")
		vc.vals[x] = vc.load(st, &Addr{Kind: AElem, Reg: b.S, Idx: i, Root: arr.Elem(), T: arr.Elem()})
	case *ssa.Slice:
		vc.vals[x] = vc.sliceOp(st, x)
	case *ssa.MakeSlice:
		vc.vals[x] = vc.makeSlice(st, x)
	case *ssa.MakeMap:
		vc.vals[x] = vc.makeMap(st, x.Type())
	case *ssa.MapUpdate:
		m := vc.get(st, x.Map)
		vc.nilCheck(st, m, "assignment to entry in nil map")
		vc.mapUpdate(st, m, x.Map.Type().Underlying().(*types.Map), vc.get(st, x.Key), vc.get(st, x.Value))
	case *ssa.Lookup:
		if isString(x.X.Type()) {
			b := vc.get(st, x.X)
			i := vc.get(st, x.Index).S
			vc.idxCheck(st, i, app("slen", b.S), x.Pos(), "string index out of range")
			vc.vals[x] = IntV(app("sbyte", b.S, i), x.Type())
			return
		}
		m := vc.get(st, x.X)
		mt := x.X.Type().Underlying().(*types.Map)
		v, ok := vc.mapLookup(st, m, mt, vc.get(st, x.Index))
		if x.CommaOk {
			vc.vals[x] = Val{K: KTuple, T: x.Type(), Fs: []Val{v, BoolV(ok)}}
		} else {
			vc.vals[x] = v
		}
	case *ssa.Extract:
		t := vc.get(st, x.Tuple)
		vc.vals[x] = t.Fs[x.Index]
	case *ssa.Phi:
		// handled at block entry
	case *ssa.Call:
		vc.vals[x] = vc.call(st, x, &x.Call)
	case *ssa.MakeClosure:
		fn := x.Fn.(*ssa.Function)
		v := Val{K: KFunc, Fn: fn, T: x.Type()}
		for _, b := range x.Bindings {
			v.Fr = append(v.Fr, vc.get(st, b))
		}
		vc.vals[x] = v
	case *ssa.RunDefers:
	case *ssa.Defer:
		vc.deferCall(st, x)
	case *ssa.TypeAssert:
		vc.vals[x] = vc.typeAssert(st, x)
	case *ssa.Range:
		vc.vals[x] = vc.rangeInit(st, x)
	case *ssa.Next:
		vc.vals[x] = vc.rangeNext(st, x)
	case *ssa.Go:
		// a goroutine is started: its effects (through the callee's contract, which must exist) are taken to happen here;
		// sound for facts that only grow (ghost store sets) and for callers that wait for it before reading shared state
		callee := x.Call.StaticCallee()
		if callee == nil {
			panic(unsupported("go statement with a dynamic callee"))
		}
		con := vc.W.contractFor(callee)
		if cv, ok := vc.W.DB.CallerView[fnFullName(callee)]; ok {
			con = cv
		} else if c2, ok := vc.W.DB.ByKey[fnFullName(callee)]; ok && con == nil {
			con = c2
		}
		if con == nil {
			panic(unsupported("go statement: %s has no contract", fnFullName(callee)))
		}
		args := make([]Val, len(x.Call.Args))
		for k, a := range x.Call.Args {
			args[k] = vc.get(st, a)
		}
		var names []string
		for _, p := range callee.Params {
			names = append(names, p.Name())
		}
		vc.applyContract(st, con, fnFullName(callee), args, names, nil, x.Pos())
	case *ssa.MakeChan:
		id := vc.newObj(st)
		vc.vals[x] = IntV(id, x.Type())
	case *ssa.Select:
		panic(unsupported("select statement"))
	case *ssa.Send:
		vc.chanSend(st, x)
	default:
		panic(unsupported("instruction %T", in))
	}
}

func (vc *VC) typeAssert(st *State, x *ssa.TypeAssert) Val {
	v := vc.get(st, x.X)
	if !x.CommaOk {
		panic(unsupported("type assertion without comma-ok"))
	}
	ok := vc.fresh("taok", "Bool")
	var r Val
	if isPointerLike(x.AssertedType) {
		r = IntV(vc.name("ta", "Int", Ite(ok, v.S, "0")), x.AssertedType)
	} else {
		r = vc.freshVal("ta", x.AssertedType)
		st.assume(vc, vc.valid(st, r))
	}
	st.assume(vc, Imp(Eq(v.S, "0"), Not(ok)))
	return Val{K: KTuple, T: x.Type(), Fs: []Val{r, BoolV(ok)}}
}

func (vc *VC) unop(st *State, x *ssa.UnOp) Val {
	switch x.Op {
	case token.MUL:
		if g, ok := x.X.(*ssa.Global); ok {
			et := derefType(g.Type())
			if isErrorType(et) {
				return IntV(vc.errConst(g.Pkg.Pkg.Path()+"."+g.Name()), et)
			}
			if s, ok := et.Underlying().(*types.Struct); ok && s.NumFields() == 0 {
				return Val{K: KStruct, T: et}
			}
		}
		av := vc.get(st, x.X)
		if av.K == KInt {
			vc.nilCheck(st, av, "load through nil pointer")
			if arr, isArr := isArrayT(derefType(x.X.Type())); isArr {
				// array value: a private copy of the region
				id := vc.allocRegion(st, arr.Elem())
				saved := vc.modset
				vc.modset = nil
				vc.copyRange(st, arr.Elem(), id, "0", av.S, "0", numI(arr.Len()))
				vc.modset = saved
				return IntV(id, x.Type())
			}
		}
		return vc.load(st, vc.addrOf(st, av, x.X.Type()))
	case token.NOT:
		return BoolV(Not(vc.get(st, x.X).S))
	case token.SUB:
		v := vc.get(st, x.X)
		if isFloat(x.Type()) {
			return IntV(vc.fresh("fneg", "Int"), x.Type())
		}
		return IntV(vc.name("neg", "Int", wrapInt(Sub("0", v.S), x.Type())), x.Type())
	case token.XOR:
		v := vc.get(st, x.X)
		lo, hi, ok := intRange(x.Type())
		if !ok {
			panic(unsupported("^ on non-integer"))
		}
		if lo.Sign() == 0 {
			return IntV(Sub(num(hi), v.S), x.Type())
		}
		return IntV(Sub(Sub("0", v.S), "1"), x.Type())
	case token.ARROW:
		return vc.chanRecv(st, x)
	}
	panic(unsupported("unary operator %s", x.Op))
}

func (vc *VC) deferCall(st *State, d *ssa.Defer) {
	name := ""
	if c := d.Call.StaticCallee(); c != nil {
		name = c.String()
	} else if d.Call.IsInvoke() {
		name = d.Call.Method.FullName()
	}
	for _, ok := range []string{"Unlock", "RUnlock", "Close", "Done", "cancel", "Stop"} {
		if strings.HasSuffix(name, ok) {
			return
		}
	}
	if b, ok := d.Call.Value.(*ssa.Builtin); ok && b.Name() == "close" {
		return
	}
	if vc.W.deferOK[name] {
		return
	}
	panic(unsupported("defer of %s", name))
}

// channels: no model of who sends what. A send is a no-op for the sender's own state; a receive yields an arbitrary value.
func (vc *VC) chanSend(st *State, x *ssa.Send) {}

func (vc *VC) chanRecv(st *State, x *ssa.UnOp) Val {
	et := x.X.Type().Underlying().(*types.Chan).Elem()
	v := vc.freshVal("recv", et)
	al := vc.fresh("alloc", "Int")
	st.assume(vc, Ge(al, st.alloc))
	st.alloc = al
	st.assume(vc, vc.valid(st, v))
	if x.CommaOk {
		return Val{K: KTuple, T: x.Type(), Fs: []Val{v, BoolV(vc.fresh("recvok", "Bool"))}}
	}
	return v
}

// Range over a map: a ghost "visited" set per iterator. Each Next yields a key of the domain not yet visited (any order),
// or reports exhaustion when every key of the domain has been visited.
func (vc *VC) rangeInit(st *State, x *ssa.Range) Val {
	mt, ok := x.X.Type().Underlying().(*types.Map)
	if !ok {
		panic(unsupported("range over string"))
	}
	m := vc.get(st, x.X)
	name := "G_iter_" + sanitize(x.Name()) + "_" + sanitize(x.Parent().Name())
	vc.heapGet(st, name, "(Array Int Bool)")
	vc.heapSet(st, name, "(Array Int Bool)", "((as const (Array Int Bool)) false)")
	v := IntV(m.S, x.X.Type())
	vc.iters[x] = iterInfo{ghost: name, m: m, mt: mt}
	return v
}

type iterInfo struct {
	ghost string
	m     Val
	mt    *types.Map
}

func (vc *VC) rangeNext(st *State, x *ssa.Next) Val {
	rg, ok := x.Iter.(*ssa.Range)
	if !ok {
		panic(unsupported("next on unknown iterator"))
	}
	it, ok := vc.iters[rg]
	if !ok {
		panic(unsupported("next on an iterator that was not initialised"))
	}
	vis := vc.heapGet(st, it.ghost, "(Array Int Bool)")
	dom, _, _ := vc.mapHeap(it.mt)
	d := vc.name("dom", "(Array Int Bool)", Sel(vc.heapGet(st, dom, "(Array Int (Array Int Bool))"), it.m.S))
	okv := vc.fresh("next_ok", "Bool")
	kv := vc.freshVal("next_key", it.mt.Key())
	k := mapKeyTerm(kv)
	st.assume(vc, vc.valid(st, kv))
	st.assume(vc, Imp(okv, And(Sel(d, k), Not(Sel(vis, k)))))
	// exhaustion: nothing of the domain is left (also for a nil map: empty domain)
	st.assume(vc, Imp(Not(okv), fmt.Sprintf("(forall ((x Int)) (! (=> (select %s x) (select %s x)) :pattern ((select %s x))))", d, vis, d)))
	st.assume(vc, Imp(Eq(it.m.S, "0"), Not(okv)))
	vc.heapSet(st, it.ghost, "(Array Int Bool)", Ite(okv, Sto(vis, k, T), vis))
	val, _ := vc.mapLookup(st, it.m, it.mt, kv)
	return Val{K: KTuple, T: x.Type(), Fs: []Val{BoolV(okv), kv, val}}
}
