package main

import (
	"fmt"
	"go/constant"
	"go/token"
	"go/types"
	"math/big"

	"golang.org/x/tools/go/ssa"
)

// ModSet is the set of pre-existing locations a function (or loop) may write.
type ModSet struct {
	Fields  map[string][]string // heap array family prefix ("F_T_f") -> object ids that may be written
	Regions []modRegion         // slice windows that may be written
	Boxes   []string            // P-heap object ids
	Ghost   map[string]bool
	Streams []string // reader ids whose position may advance
	Outputs []string // writer ids that may receive more bytes
	Families map[string]bool // whole element-heap families ("E_string") that may be written anywhere
	All     bool
}

type modRegion struct{ Reg, Lo, Hi, Elem string } // Elem: heap family "E_<elemkey>" the window belongs to

func (vc *VC) escapeAnalysis() {
	var visit func(fn *ssa.Function)
	seen := map[*ssa.Function]bool{}
	visit = func(fn *ssa.Function) {
		if seen[fn] {
			return
		}
		seen[fn] = true
		for _, b := range fn.Blocks {
			for _, in := range b.Instrs {
				a, ok := in.(*ssa.Alloc)
				if !ok {
					continue
				}
				if a.Referrers() == nil {
					continue
				}
				for _, r := range *a.Referrers() {
					switch u := r.(type) {
					case *ssa.Store:
						if u.Val == a {
							vc.escaped[a] = true
						}
					case *ssa.UnOp, *ssa.FieldAddr, *ssa.IndexAddr, *ssa.DebugRef, *ssa.Slice:
					case *ssa.MakeClosure:
						// captured by reference; fine while the closure is only run symbolically
					case *ssa.Call:
						vc.escaped[a] = true
					default:
						vc.escaped[a] = true
					}
				}
			}
		}
		for _, an := range fn.AnonFuncs {
			visit(an)
		}
	}
	visit(vc.Fn)
}

func derefType(t types.Type) types.Type {
	if p, ok := t.Underlying().(*types.Pointer); ok {
		return p.Elem()
	}
	return t
}

func isStructT(t types.Type) bool {
	if isOpaqueNamed(t) {
		return false
	}
	_, ok := t.Underlying().(*types.Struct)
	return ok
}

func isArrayT(t types.Type) (*types.Array, bool) {
	a, ok := t.Underlying().(*types.Array)
	return a, ok
}

// addrOf turns a pointer-typed value into an address.
func (vc *VC) addrOf(st *State, v Val, ptrT types.Type) *Addr {
	if v.K == KAddr {
		return v.A
	}
	if v.K != KInt {
		panic(unsupported("address of non-pointer value"))
	}
	et := derefType(ptrT)
	if isStructT(et) {
		return &Addr{Kind: AField, Obj: v.S, Root: et, T: et}
	}
	return &Addr{Kind: ABox, Obj: v.S, Root: et, T: et}
}

func (vc *VC) nilCheck(st *State, v Val, what string) {
	if v.K != KInt {
		return
	}
	k := vc.count("nil")
	vc.addObl("nil", fmt.Sprintf("nil#%d", k), st, Ne(v.S, "0"), token.NoPos, nil, what)
	st.assume(vc, Ne(v.S, "0"))
}

func (vc *VC) constVal(c *ssa.Const) Val {
	t := c.Type()
	if c.Value == nil {
		return zeroVal(t)
	}
	switch c.Value.Kind() {
	case constant.Bool:
		if constant.BoolVal(c.Value) {
			return Val{K: KBool, S: T, T: t}
		}
		return Val{K: KBool, S: F, T: t}
	case constant.Int:
		if isFloat(t) {
			f, _ := constant.Float64Val(c.Value)
			return IntV(vc.floatConst(f), t)
		}
		n, _ := new(big.Int).SetString(c.Value.ExactString(), 10)
		return IntV(num(n), t)
	case constant.String:
		return IntV(vc.strLit(constant.StringVal(c.Value)), t)
	case constant.Float:
		f, _ := constant.Float64Val(c.Value)
		return IntV(vc.floatConst(f), t)
	}
	panic(unsupported("constant %s", c))
}

func (vc *VC) floatConst(f float64) string {
	name := "flt_" + sanitize(fmt.Sprint(f))
	vc.declare(name, "Int")
	return name
}

func (vc *VC) get(st *State, v ssa.Value) Val {
	switch x := v.(type) {
	case *ssa.Const:
		return vc.constVal(x)
	case *ssa.Function:
		return Val{K: KFunc, Fn: x, T: x.Type()}
	case *ssa.Global:
		return vc.globalAddr(x)
	case *ssa.Builtin:
		panic(unsupported("builtin %s used as a value", x.Name()))
	}
	if r, ok := vc.vals[v]; ok {
		return r
	}
	panic(unsupported("use of an SSA value that was not computed: %s = %s", v.Name(), v))
}

// globals: well-known sentinel errors are constants; other globals are cells of a pseudo object.
func (vc *VC) globalAddr(g *ssa.Global) Val {
	et := derefType(g.Type())
	name := "G_" + sanitize(g.Pkg.Pkg.Path()+"."+g.Name())
	return Val{K: KAddr, T: g.Type(), A: &Addr{Kind: ABox, Obj: vc.globalID(name), Root: et, T: et}}
}

func (vc *VC) globalID(name string) string {
	id := "gid_" + name
	if !vc.declSet[id] {
		vc.declare(id, "Int")
		// global ids are negative and pairwise distinct: never equal to an allocated object
		k := len(vc.W.globalIDs) + 1
		if n, ok := vc.W.globalIDs[name]; ok {
			k = n
		} else {
			vc.W.globalIDs[name] = k
		}
		vc.addAssert(Eq(id, numI(int64(-k))))
	}
	return id
}

func wrapInt(term string, t types.Type) string {
	lo, hi, ok := intRange(t)
	if !ok {
		return term
	}
	if n, isN := isNum(term); isN {
		m := new(big.Int).Add(new(big.Int).Sub(hi, lo), big.NewInt(1))
		r := new(big.Int).Sub(n, lo)
		r.Mod(r, m)
		r.Add(r, lo)
		return num(r)
	}
	m := new(big.Int).Add(new(big.Int).Sub(hi, lo), big.NewInt(1))
	if lo.Sign() == 0 {
		return Mod(term, num(m))
	}
	// signed: ((x - lo) mod m) + lo
	return Add(Mod(Sub(term, num(lo)), num(m)), num(lo))
}

// wrap1 reduces a term known to lie within one modulus of the range (result of + or - on in-range operands).
func wrap1(vc *VC, term string, t types.Type) string {
	lo, hi, ok := intRange(t)
	if !ok {
		return term
	}
	if _, isN := isNum(term); isN {
		return wrapInt(term, t)
	}
	m := num(new(big.Int).Add(new(big.Int).Sub(hi, lo), big.NewInt(1)))
	x := vc.name("ar", "Int", term)
	return Ite(Gt(x, num(hi)), Sub(x, m), Ite(Lt(x, num(lo)), Add(x, m), x))
}

func (vc *VC) binop(st *State, in *ssa.BinOp) Val {
	x := vc.get(st, in.X)
	y := vc.get(st, in.Y)
	t := in.X.Type()
	rt := in.Type()
	switch in.Op {
	case token.EQL, token.NEQ:
		var eq string
		switch x.K {
		case KInt, KBool:
			eq = Eq(x.S, y.S)
			if x.K == KBool {
				eq = Eq(x.S, y.S)
			}
		case KStruct:
			cx, cy := x.comps(), y.comps()
			var es []string
			for i := range cx {
				es = append(es, Eq(cx[i], cy[i]))
			}
			eq = And(es...)
		case KSlice:
			// only comparison with nil is legal
			if y.Reg == "0" {
				eq = Eq(x.Reg, "0")
			} else if x.Reg == "0" {
				eq = Eq(y.Reg, "0")
			} else {
				panic(unsupported("slice comparison"))
			}
		default:
			panic(unsupported("== on kind %d", x.K))
		}
		if in.Op == token.NEQ {
			eq = Not(eq)
		}
		return BoolV(eq)
	}
	if isString(t) {
		switch in.Op {
		case token.ADD:
			return IntV(vc.strConcat(st, x.S, y.S), rt)
		case token.LSS:
			return BoolV(vc.strLess(x.S, y.S))
		case token.GTR:
			return BoolV(vc.strLess(y.S, x.S))
		case token.LEQ:
			return BoolV(Not(vc.strLess(y.S, x.S)))
		case token.GEQ:
			return BoolV(Not(vc.strLess(x.S, y.S)))
		}
		panic(unsupported("string operator %s", in.Op))
	}
	if x.K == KBool {
		switch in.Op {
		case token.AND, token.LAND:
			return BoolV(And(x.S, y.S))
		case token.OR, token.LOR:
			return BoolV(Or(x.S, y.S))
		case token.XOR:
			return BoolV(Not(Eq(x.S, y.S)))
		}
		panic(unsupported("bool operator %s", in.Op))
	}
	if isFloat(t) {
		switch in.Op {
		case token.LSS, token.GTR, token.LEQ, token.GEQ:
			return BoolV(vc.fresh("fcmp", "Bool"))
		}
		return IntV(vc.fresh("fop", "Int"), rt)
	}
	switch in.Op {
	case token.LSS:
		return BoolV(Lt(x.S, y.S))
	case token.LEQ:
		return BoolV(Le(x.S, y.S))
	case token.GTR:
		return BoolV(Gt(x.S, y.S))
	case token.GEQ:
		return BoolV(Ge(x.S, y.S))
	case token.ADD:
		return IntV(vc.name("add", "Int", wrap1(vc, Add(x.S, y.S), rt)), rt)
	case token.SUB:
		return IntV(vc.name("sub", "Int", wrap1(vc, Sub(x.S, y.S), rt)), rt)
	case token.MUL:
		return IntV(vc.name("mul", "Int", wrapInt(Mul(x.S, y.S), rt)), rt)
	case token.QUO, token.REM:
		k := vc.count("div")
		vc.addObl("div", fmt.Sprintf("div#%d", k), st, Ne(y.S, "0"), in.Pos(), nil, "division by zero")
		st.assume(vc, Ne(y.S, "0"))
		lo, _, _ := intRange(rt)
		var q, r string
		if lo != nil && lo.Sign() == 0 {
			q, r = Div(x.S, y.S), Mod(x.S, y.S)
		} else {
			// truncated division from euclidean
			ax := Ite(Ge(x.S, "0"), x.S, Sub("0", x.S))
			ay := Ite(Ge(y.S, "0"), y.S, Sub("0", y.S))
			qa := Div(ax, ay)
			q = Ite(Eq(Ge(x.S, "0"), Ge(y.S, "0")), qa, Sub("0", qa))
			r = Sub(x.S, Mul(q, y.S))
		}
		if in.Op == token.QUO {
			return IntV(vc.name("quo", "Int", wrapInt(q, rt)), rt)
		}
		return IntV(vc.name("rem", "Int", r), rt)
	case token.SHL, token.SHR:
		if n, ok := isNum(y.S); ok && n.IsInt64() && n.Int64() >= 0 && n.Int64() < 64 {
			p := num(pow2(uint(n.Int64())))
			if in.Op == token.SHL {
				return IntV(vc.name("shl", "Int", wrapInt(Mul(x.S, p), rt)), rt)
			}
			return IntV(vc.name("shr", "Int", Div(x.S, p)), rt) // floor division = arithmetic shift
		}
		return IntV(vc.bitop(in.Op.String(), x.S, y.S, rt), rt)
	case token.AND:
		if n, ok := isNum(y.S); ok {
			m := new(big.Int).Add(n, big.NewInt(1))
			if n.Sign() >= 0 && m.BitLen() > 0 && new(big.Int).And(m, n).Sign() == 0 { // mask 2^k-1
				if lo, _, _ := intRange(t); lo != nil && lo.Sign() == 0 {
					return IntV(vc.name("and", "Int", Mod(x.S, num(m))), rt)
				}
			}
		}
		// constant mask with few bits on an unsigned operand: sum of the selected bits
		for _, pr := range [][2]Val{{x, y}, {y, x}} {
			if n, ok := isNum(pr[1].S); ok && n.Sign() > 0 && n.BitLen() <= 64 {
				if lo, _, _ := intRange(t); lo != nil && lo.Sign() == 0 {
					cnt := 0
					for b := 0; b < n.BitLen(); b++ {
						if n.Bit(b) == 1 {
							cnt++
						}
					}
					if cnt <= 8 {
						v := vc.name("andx", "Int", pr[0].S)
						sum := "0"
						for b := 0; b < n.BitLen(); b++ {
							if n.Bit(b) == 1 {
								p2 := num(pow2(uint(b)))
								sum = Add(sum, Mul(Mod(Div(v, p2), "2"), p2))
							}
						}
						return IntV(vc.name("and", "Int", sum), rt)
					}
				}
			}
		}
		return IntV(vc.bitop("&", x.S, y.S, rt), rt)
	case token.OR, token.XOR, token.AND_NOT:
		return IntV(vc.bitop(in.Op.String(), x.S, y.S, rt), rt)
	}
	panic(unsupported("binary operator %s", in.Op))
}

// bitop: uninterpreted in int mode (range-constrained); exact reasoning needs bv mode.
func (vc *VC) bitop(op, x, y string, t types.Type) string {
	f := "bit_" + sanitize(op)
	vc.declareFun(f, []string{"Int", "Int"}, "Int")
	r := app(f, x, y)
	if lo, hi, ok := intRange(t); ok {
		c := vc.forceName("bit", "Int", r)
		vc.addAssert(And(Le(num(lo), c), Le(c, num(hi))))
		if op == "|" && lo.Sign() == 0 {
			vc.addAssert(And(Ge(c, x), Ge(c, y), Le(c, Add(x, y))))
		}
		if op == "&" && lo.Sign() == 0 {
			vc.addAssert(And(Le(c, x), Le(c, y)))
		}
		return c
	}
	return r
}

func (vc *VC) strLess(a, b string) string {
	vc.needStr()
	vc.declareFun("strlt", []string{"Int", "Int"}, "Bool")
	vc.axiom("strlt_irrefl", "(forall ((a Int)) (! (not (strlt a a)) :pattern ((strlt a a))))")
	vc.axiom("strlt_trans", "(forall ((a Int) (b Int) (c Int)) (! (=> (and (strlt a b) (strlt b c)) (strlt a c)) :pattern ((strlt a b) (strlt b c))))")
	vc.axiom("strlt_total", "(forall ((a Int) (b Int)) (! (or (strlt a b) (strlt b a) (= a b)) :pattern ((strlt a b))))")
	vc.axiom("strlt_asym", "(forall ((a Int) (b Int)) (! (not (and (strlt a b) (strlt b a))) :pattern ((strlt a b))))")
	return app("strlt", a, b)
}

// sumLess: strict total order on checksum ids, tied to the string order of 16-byte strings (what string(a) < string(b) computes).
func (vc *VC) sumLess(a, b string) string {
	vc.declareFun("sumlt", []string{"Int", "Int"}, "Bool")
	vc.axiom("sumlt_irrefl", "(forall ((a Int)) (! (not (sumlt a a)) :pattern ((sumlt a a))))")
	vc.axiom("sumlt_trans", "(forall ((a Int) (b Int) (c Int)) (! (=> (and (sumlt a b) (sumlt b c)) (sumlt a c)) :pattern ((sumlt a b) (sumlt b c))))")
	vc.axiom("sumlt_total", "(forall ((a Int) (b Int)) (! (or (sumlt a b) (sumlt b a) (= a b)) :pattern ((sumlt a b))))")
	vc.axiom("sumlt_asym", "(forall ((a Int) (b Int)) (! (not (and (sumlt a b) (sumlt b a))) :pattern ((sumlt a b))))")
	// link with strings: for 16-byte strings, s1 < s2 iff their ids are in sumlt
	vc.needStr()
	vc.declareFun("strid", []string{"Int"}, "Int")
	vc.declareFun("strlt", []string{"Int", "Int"}, "Bool")
	vc.axiom("sumlt_str", "(forall ((s Int) (t Int)) (! (=> (and (= (slen s) 16) (= (slen t) 16)) (= (strlt s t) (sumlt (strid s) (strid t)))) :pattern ((strlt s t))))")
	return app("sumlt", a, b)
}

func (vc *VC) strConcat(st *State, a, b string) string {
	vc.needStr()
	vc.declareFun("strcat", []string{"Int", "Int"}, "Int")
	c := vc.forceName("cat", "Int", app("strcat", a, b))
	vc.addAssert(Eq(app("slen", c), Add(app("slen", a), app("slen", b))))
	i := "i"
	vc.addAssert(fmt.Sprintf("(forall ((%s Int)) (! (=> (and (<= 0 %s) (< %s (slen %s))) (= (sbyte %s %s) (ite (< %s (slen %s)) (sbyte %s %s) (sbyte %s (- %s (slen %s)))))) :pattern ((sbyte %s %s))))",
		i, i, i, c, c, i, i, a, a, i, b, i, a, c, i))
	return c
}

func (vc *VC) convert(st *State, in *ssa.Convert) Val {
	x := vc.get(st, in.X)
	from := in.X.Type()
	to := in.Type()
	_, _, fromInt := intRange(from)
	_, _, toInt := intRange(to)
	switch {
	case fromInt && toInt:
		flo, fhi, _ := intRange(from)
		tlo, thi, _ := intRange(to)
		if flo.Cmp(tlo) >= 0 && fhi.Cmp(thi) <= 0 {
			return IntV(x.S, to) // widening
		}
		if vc.Con != nil && vc.W.exactConv {
			k := vc.count("conv")
			vc.addObl("conv", fmt.Sprintf("conv#%d", k), st, And(Le(num(tlo), x.S), Le(x.S, num(thi))), in.Pos(), nil, "narrowing conversion loses value")
		}
		return IntV(vc.name("conv", "Int", wrapInt(x.S, to)), to)
	case fromInt && isFloat(to):
		vc.declareFun("int2float", []string{"Int"}, "Int")
		return IntV(app("int2float", x.S), to)
	case isFloat(from) && toInt:
		vc.declareFun("float2int", []string{"Int"}, "Int")
		c := vc.forceName("f2i", "Int", app("float2int", x.S))
		lo, hi, _ := intRange(to)
		vc.addAssert(And(Le(num(lo), c), Le(c, num(hi))))
		return IntV(c, to)
	case isFloat(from) && isFloat(to):
		return IntV(x.S, to)
	case isString(to):
		if sl, ok := from.Underlying().(*types.Slice); ok {
			if b, ok := sl.Elem().Underlying().(*types.Basic); ok && b.Kind() == types.Uint8 {
				return IntV(vc.bytesToString(st, x), to)
			}
		}
		if isString(from) {
			return IntV(x.S, to)
		}
		panic(unsupported("conversion %s -> string", from))
	case isString(from):
		if sl, ok := to.Underlying().(*types.Slice); ok {
			if b, ok := sl.Elem().Underlying().(*types.Basic); ok && b.Kind() == types.Uint8 {
				return vc.stringToBytes(st, x.S, to)
			}
		}
		panic(unsupported("conversion string -> %s", to))
	}
	if types.Identical(from.Underlying(), to.Underlying()) {
		x.T = to
		return x
	}
	panic(unsupported("conversion %s -> %s", from, to))
}

const byteHeap = "E_u8"

func (vc *VC) byteHeapGet(st *State) string { return vc.heapGet(st, byteHeap, arr2Sort("Int")) }

// bytesToString: fresh string id whose bytes are the slice's current contents.
func (vc *VC) bytesToString(st *State, b Val) string {
	vc.needStr()
	s := vc.fresh("str", "Int")
	h := vc.byteHeapGet(st)
	r := vc.name("reg", "(Array Int Int)", Sel(h, b.Reg))
	vc.define(Eq(app("slen", s), Ite(Ge(b.Len, "0"), b.Len, "0")))
	vc.define(fmt.Sprintf("(forall ((i Int)) (! (=> (and (<= 0 i) (< i %s)) (= (sbyte %s i) (select %s (+ %s i)))) :pattern ((sbyte %s i))))", b.Len, s, r, b.Off, s))
	// 16-byte strings (checksums used as map keys / compared as strings) carry the id of their bytes: equality and order of such
	// strings are equality and order of the ids, with no byte-level reasoning
	vc.needSid()
	vc.declareFun("strid", []string{"Int"}, "Int")
	vc.define(Imp(Eq(b.Len, "16"), Eq(app("strid", s), app("sid16", h, b.Reg, b.Off))))
	vc.axiom("strid_inj", "(forall ((s Int) (t Int)) (! (=> (and (= (slen s) 16) (= (slen t) 16) (= (strid s) (strid t))) (= s t)) :pattern ((strid s) (strid t))))")
	return s
}

func (vc *VC) stringToBytes(st *State, s string, t types.Type) Val {
	vc.needStr()
	id := vc.newObj(st)
	h := vc.byteHeapGet(st)
	na := vc.fresh("bytes", "(Array Int Int)")
	vc.define(fmt.Sprintf("(forall ((i Int)) (! (=> (and (<= 0 i) (< i (slen %s))) (= (select %s i) (sbyte %s i))) :pattern ((select %s i))))", s, na, s, na))
	vc.heapSet(st, byteHeap, arr2Sort("Int"), Sto(h, id, na))
	l := app("slen", s)
	vc.ghostAlloc(st, l)
	return SliceV(id, "0", l, l, t)
}

// ghostAlloc adds n bytes to the ghost allocation counter.
func (vc *VC) ghostAlloc(st *State, n string) {
	h := vc.heapGet(st, "G_allocated", "Int")
	vc.heapSet(st, "G_allocated", "Int", Add(h, n))
}

func elemSize(t types.Type) int64 {
	s := types.SizesFor("gc", "amd64")
	return s.Sizeof(t)
}
