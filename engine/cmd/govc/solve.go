package main

import (
	"bytes"
	"regexp"
	"context"
	"fmt"
	"os"
	"os/exec"
	"path/filepath"
	"sort"
	"strings"
	"sync"
	"time"
)

type SolveResult struct {
	Status string // unsat | sat | unknown | timeout | trivial
	Solver string
	Secs   float64
	Output string
	File   string
	Bytes  int
}

type solverSpec struct {
	Name string
	Args []string
}

var solvers = []solverSpec{
	{"z3-new", []string{"z3-new", "-smt2"}},
	{"z3-new/ematch", []string{"z3-new", "-smt2", "auto_config=false", "smt.mbqi=false"}},
	{"z3", []string{"z3", "-smt2"}},
	{"cvc5", []string{"cvc5", "--lang=smt2", "--incremental"}},
}

// retrySolvers: the portfolio of the second pass adds random seeds (quantifier-heavy goals are seed sensitive)
var retrySolvers = append(append([]solverSpec{}, solvers...),
	solverSpec{"z3-new/ematch/s3", []string{"z3-new", "-smt2", "auto_config=false", "smt.mbqi=false", "smt.random_seed=3"}},
	solverSpec{"z3-new/ematch/s7", []string{"z3-new", "-smt2", "auto_config=false", "smt.mbqi=false", "smt.random_seed=7"}},
	solverSpec{"z3-new/s5", []string{"z3-new", "-smt2", "smt.random_seed=5"}},
	solverSpec{"z3/s2", []string{"z3", "-smt2", "smt.random_seed=2"}},
)

// emit writes the SMT-LIB file of one obligation, restricted to its cone of influence.
// emit writes the SMT-LIB file of one obligation. variant 0 transforms quantifiers of the goal aggressively (splits equivalences,
// skolemises negative existentials, offers candidate witnesses); variant 1 only skolemises positive universals.
func (vc *VC) emit(o *Obl, dir string, idx int) (string, int, error) {
	return vc.emitVariant(o, dir, idx, 0)
}

func (vc *VC) emitVariant(o *Obl, dir string, idx int, variant int) (string, int, error) {
	vc.plainGoal = variant == 1
	need := map[string]bool{}
	symbols(o.PC, need)
	symbols(o.Goal, need)
	// pathSyms: symbols on the execution path of the obligation (through definitions only, not through side facts)
	pathSyms := map[string]bool{}
	symbols(o.PC, pathSyms)
	symbols(o.Goal, pathSyms)
	{
		di := map[string]int{}
		for i, d := range vc.defs {
			di[d.Name] = i
		}
		done := map[int]bool{}
		for ch := true; ch; {
			ch = false
			for sym := range pathSyms {
				if i, ok := di[sym]; ok && !done[i] {
					done[i] = true
					symbols(vc.defs[i].Term, pathSyms)
					ch = true
				}
			}
		}
	}
	// slicing by program order: a definition or fact that mentions a symbol created after the obligation cannot be needed by
	// it (symbols are numbered in creation order; facts added when a loop is closed only mention symbols of its header and
	// of the state before it, so they stay available to the obligations of the loop body)
	late := func(at int) bool {
		return o.Mark > 0 && at > o.Mark && (o.Hi == 0 || at <= o.Hi) && os.Getenv("GOVC_NOSLICE") == ""
	}
	if os.Getenv("GOVC_DEBUGMARK") != "" {
		fmt.Fprintf(os.Stderr, "MARK %s mark=%d hi=%d cut=(%d,%d]\n", o.Name, o.Mark, o.Hi, o.CutLo, o.CutHi)
		for i, a := range vc.asserts {
			if strings.Contains(a, "(strid s) (strid t)") {
				fmt.Fprintf(os.Stderr, "   strid_inj at=%d\n", vc.assertAt[i])
			}
		}

	}
	inCut := func(at int) bool {
		return o.CutHi > 0 && at > o.CutLo && at <= o.CutHi
	}
	hasQuant := func(t string) bool {
		return strings.Contains(t, "(forall ") || strings.Contains(t, "(exists ")
	}
	defIdx := map[string]int{}
	for i, d := range vc.defs {
		if i < len(vc.defAt) && late(vc.defAt[i]) {
			continue
		}
		defIdx[d.Name] = i
	}
	// facts (asserts) are included when they share a symbol with the cone; iterate to a fixpoint
	factSyms := make([]map[string]bool, len(vc.asserts))
	empty := map[string]bool{}
	for i, a := range vc.asserts {
		if i < len(vc.assertAt) && (late(vc.assertAt[i]) || (inCut(vc.assertAt[i]) && hasQuant(a))) {
			factSyms[i] = empty
			continue
		}
		// the symbols of a fact do not change between obligations: computed once per function
		for len(vc.assertSymsCache) <= i {
			vc.assertSymsCache = append(vc.assertSymsCache, nil)
		}
		if vc.assertSymsCache[i] == nil {
			m := map[string]bool{}
			symbols(a, m)
			vc.assertSymsCache[i] = m
		}
		factSyms[i] = vc.assertSymsCache[i]
	}
	declared := map[string]bool{}
	isConstSym := map[string]bool{}
	for _, d := range vc.decls {
		f := strings.Fields(d)
		if len(f) >= 2 {
			declared[f[1]] = true
			if f[0] == "(declare-const" {
				isConstSym[f[1]] = true
			}
		}
	}
	inclDef := map[int]bool{}
	inclFact := map[int]bool{}
	changed := true
	for changed {
		changed = false
		for s := range need {
			if i, ok := defIdx[s]; ok && !inclDef[i] {
				inclDef[i] = true
				symbols(vc.defs[i].Term, need)
				changed = true
			}
		}
		for i, m := range factSyms {
			if inclFact[i] {
				continue
			}
			// a fact about particular constants (a definition of fresh symbols, a frame of one loop) is relevant when one
			// of its constants is; a closed axiom over function symbols only is relevant when one of its functions is used
			nConst := 0
			hitConst := false
			hitFun := false
			for s := range m {
				if !declared[s] {
					continue
				}
				if isConstSym[s] {
					if s == "alloc0" || s == "str_empty" {
						continue
					}
					nConst++
					if need[s] {
						hitConst = true
					}
				} else if need[s] {
					hitFun = true
				}
			}
			if (nConst > 0 && hitConst) || (nConst == 0 && hitFun) {
				inclFact[i] = true
				for s := range m {
					if !need[s] {
						need[s] = true
						changed = true
					}
				}
			}
		}
	}
	if os.Getenv("GOVC_DEBUGMARK") != "" {
		for i, a := range vc.asserts {
			if strings.Contains(a, "(strid s) (strid t)") {
				fmt.Fprintf(os.Stderr, "   strid_inj incl=%v need[strid]=%v need[slen]=%v declared[strid]=%v syms=%d\n", inclFact[i], need["strid"], need["slen"], declared["strid"], len(factSyms[i]))
			}
		}
	}
	macroUsed := false
	for s := range need {
		if s == "sid16" || s == "sidc16" {
			macroUsed = true
		}
	}
	if macroUsed {
		need["sum16"] = true
		for i, m := range factSyms {
			if m["sum16"] {
				inclFact[i] = true
				for s := range m {
					need[s] = true
				}
			}
		}
	}
	var b bytes.Buffer
	b.WriteString("(set-option :produce-models true)\n(set-logic ALL)\n")
	fmt.Fprintf(&b, "; obligation %s\n; %s\n", o.Name, strings.ReplaceAll(o.Note, "\n", " "))
	for _, d := range vc.decls {
		f := strings.Fields(d)
		if len(f) >= 2 && need[f[1]] {
			b.WriteString(d)
			b.WriteByte('\n')
		}
	}
	for _, m := range vc.macros {
		name := strings.Fields(m)[1]
		if need[name] || strings.Contains(o.PC+o.Goal, name) || name == "bclamp" {
			b.WriteString(m)
			b.WriteByte('\n')
		}
	}
	var fi []int
	for i := range inclFact {
		fi = append(fi, i)
	}
	sort.Ints(fi)
	for _, i := range fi {
		fmt.Fprintf(&b, "(assert %s)\n", vc.asserts[i])
	}
	var di []int
	for i := range inclDef {
		di = append(di, i)
	}
	sort.Ints(di)
	for _, i := range di {
		d := vc.defs[i]
		if d.Sort == "Bool" && strings.HasPrefix(d.Name, "pc") {
			// path conditions occur only positively: an implication keeps assumed quantified facts in positive polarity
			term := d.Term
			if i < len(vc.defAt) && inCut(vc.defAt[i]) && hasQuant(term) {
				term = stripQuantConjuncts(term)
			}
			fmt.Fprintf(&b, "(assert (=> %s %s))\n", d.Name, term)
			continue
		}
		fmt.Fprintf(&b, "(assert (= %s %s))\n", d.Name, d.Term)
	}
	fmt.Fprintf(&b, "(assert %s)\n", o.PC)
	if o.Expect != "sat" {
		// positive universally quantified conjuncts of the goal are skolemised by hand, and every quantified spec formula in the
		// context is instantiated at the skolem constants (and their neighbours): proofs of array invariants then need no
		// quantifier instantiation by the solver at all.
		// conjuncts of the goal that literally occur among the assumptions on this path (up to the names of bound variables,
		// after replacing unchanged state by its earlier name) hold trivially: typical for "this did not change" invariants
		goal0 := o.Goal
		{
			// "occur among the assumptions" is meant strictly: as an unguarded conjunct of a path condition that the
			// obligation's own path condition implies (path conditions reached through conjunctions only — not the branches of
			// a merge, not hypotheses of implications, nothing under a negation)
			implied := map[string]bool{}
			var established []string
			var walk func(t string)
			walk = func(t string) {
				switch {
				case strings.HasPrefix(t, "(and "):
					for _, c := range splitSexp(t)[1:] {
						walk(c)
					}
				case strings.HasPrefix(t, "pc") && !strings.ContainsAny(t, " ("):
					if !implied[t] {
						implied[t] = true
						if i, ok := defIdx[t]; ok && inclDef[i] {
							walk(vc.defs[i].Term)
						}
					}
				default:
					if len(t) > 40 {
						established = append(established, normBound(vc.substAliases(t)))
					}
				}
			}
			walk(o.PC)
			estSet := map[string]bool{}
			for _, e := range established {
				estSet[e] = true
			}
			parts := []string{goal0}
			if strings.HasPrefix(goal0, "(and ") {
				parts = splitSexp(goal0)[1:]
			}
			changedG := false
			for i, c := range parts {
				if len(c) > 40 && estSet[normBound(vc.substAliases(c))] {
					parts[i] = T
					changedG = true
				}
			}
			if changedG {
				goal0 = And(parts...)
			}
		}
		goal, sks := vc.skolemizeGoal(goal0, o.Cands)
		for _, sk := range sks {
			fmt.Fprintf(&b, "(declare-const %s Int)\n", sk)
		}
		{
			// candidate witnesses put into the goal may name symbols outside the cone of influence: declare them
			gs := map[string]bool{}
			symbols(goal, gs)
			for _, d := range vc.decls {
				f := strings.Fields(d)
				if len(f) >= 2 && gs[f[1]] && !need[f[1]] {
					b.WriteString(d)
					b.WriteByte('\n')
					need[f[1]] = true
				}
			}
		}
		ctx0 := b.String()
		hasCand := len(sks) > 0 || (len(o.Cands) > 0 && !strings.Contains(o.Goal, "(exists "))
		for _, sr := range vc.searchRes {
			if pathSyms[sr] {
				hasCand = true
			}
		}
		if hasCand {
			ctx := ctx0
			var terms []string
			nq := 0
			for _, q := range vc.quants {
				if strings.Contains(ctx, q.Text) {
					nq++
				}
			}
			for _, sk := range sks {
				terms = append(terms, sk)
				if nq <= 3 {
					terms = append(terms, "(- "+sk+" 1)", "(+ "+sk+" 1)")
				}
				// images under the permutations introduced by sort models
				for _, d := range vc.decls {
					if strings.HasPrefix(d, "(declare-fun perm!") {
						f := strings.Fields(d)[1]
						if strings.Contains(ctx, f) {
							terms = append(terms, "("+f+" "+sk+")")
						}
					}
				}
			}
			// images of the skolem positions under "source position" functions of assumed permutations (u_sortSrc(obj, j)):
			// a fact about position j after sorting needs the facts about position sortSrc(obj, j) before it
			for _, a := range boundApps(ctx, "u_sortSrc") {
				if o.Kind == "inv-step" || o.Kind == "dec" {
					break // the state after the sort is re-established at the loop entry; steps work from the invariant
				}
				parts := splitSexp(a)
				if len(parts) != 3 {
					continue
				}
				for _, sk := range sks {
					if len(terms) < 14 {
						terms = append(terms, "(u_sortSrc "+parts[1]+" "+sk+")")
					}
				}
			}
			type item struct {
				q     quantRec
				depth int
			}
			var work []item
			for _, q := range vc.quants {
				nested := false
				for _, o := range vc.quants {
					if o != q && strings.Contains(o.Inner, q.Text) {
						nested = true
						break
					}
				}
				for _, o := range vc.exQuants {
					if strings.Contains(o.Inner, q.Text) {
						nested = true
						break
					}
				}
				if nested {
					continue // reached through its enclosing quantifier
				}
				if strings.Contains(ctx, q.Text) || strings.Contains(goal, q.Text) {
					work = append(work, item{*q, 0})
				}
			}
			// further candidate terms: results of binary searches and their predecessors
			for _, sr := range vc.searchRes {
				if pathSyms[sr] {
					terms = append(terms, sr)
					if nq <= 6 {
						terms = append(terms, "(- "+sr+" 1)")
					}
				}
			}
			// the position of a checksum in a listing (slot Skolem function of "listedAt"): for an index obligation, the slots
			// of the checksum ids computed on this path are positions worth looking at
			if o.Kind == "idx" && strings.Contains(ctx, "(u_slot ") {
				var sids []string
				for sy := range pathSyms {
					if strings.HasPrefix(sy, "sid!") {
						sids = append(sids, sy)
					}
				}
				// the most recently computed ids first (the value just looked up), a few only
				sort.Slice(sids, func(i, j int) bool { return symNumber(sids[i]) > symNumber(sids[j]) })
				if len(sids) > 3 {
					sids = sids[:3]
				}
				for _, sy := range sids {
					terms = append(terms, sy)
				}
				for _, a := range boundApps(ctx, "u_slot") {
					parts := splitSexp(a)
					for _, sy := range sids {
						if len(terms) < 14 {
							terms = append(terms, "(u_slot "+parts[1]+" "+sy+")")
						}
					}
				}
			}
			// ground applications of the slot Skolem function are positions too
			for _, g := range groundApps(ctx+goal, "u_slot") {
				if len(terms) < 14 {
					terms = append(terms, g)
				}
			}
			n := 0
			seen := map[string]bool{}
			qnames := map[string]string{}
			maxInst := 400
			if vc.Con != nil && vc.Con.Has("loop-candidates") {
				// contracts that opt into more candidate terms also get more instances (the latest facts come last)
				maxInst = 2000
			}
			if v := os.Getenv("GOVC_MAXINST"); v != "" {
				fmt.Sscanf(v, "%d", &maxInst)
			}
			for len(work) > 0 && n < maxInst {
				it := work[0]
				work = work[1:]
				vars := it.q.vars()
				cand := terms
				if len(vars) == 1 && !strings.Contains(o.Goal, "(exists ") {
					// single-variable quantifiers are also tried at the integer locals in scope (loop counters, range indices)
					for _, c := range o.Cands {
						ok := true

						m := map[string]bool{}
						symbols(c, m)
						for sy := range m {
							if !builtinSym(sy) && (!pathSyms[sy] || !need[sy]) {
								ok = false // not on the path, or not declared in this file (outside the cone of influence)
							}
						}
						if ok && len(cand) < 16 {
							dup := false
							for _, t := range cand {
								if t == c {
									dup = true
								}
							}
							if !dup {
								cand = append(append([]string{}, cand...), c)
							}
						}
					}
				}
				// all tuples of candidate terms for the bound variables
				var tuples [][]string
				var rec func(k int, cur []string)
				rec = func(k int, cur []string) {
					if len(tuples) > 150 {
						return
					}
					if k == len(vars) {
						tuples = append(tuples, append([]string(nil), cur...))
						return
					}
					for _, t := range cand {
						rec(k+1, append(cur, t))
					}
				}
				rec(0, nil)
				for _, tp := range tuples {
					inst := it.q.Inner
					for k, v := range vars {
						inst = substSym(inst, v, tp[k])
					}
					key := it.q.Text + "@" + strings.Join(tp, ",")
					if seen[key] {
						continue
					}
					seen[key] = true
					if pcs := vc.assumedAt[it.q.Text]; len(pcs) > 0 && it.depth == 0 {
						// assumed on some path: the instance holds under that path's condition
						emitted := false
						for _, pcn := range pcs {
							// pcn: a path condition symbol, or (and pc guard...) for a quantifier under implications
							m := map[string]bool{}
							symbols(pcn, m)
							onPath := false
							for sy := range m {
								if strings.HasPrefix(sy, "pc") && pathSyms[sy] {
									onPath = true
								}
							}
							if onPath {
								fmt.Fprintf(&b, "(assert (=> %s %s))\n", pcn, inst)
								n++
								emitted = true
							}
						}
						if emitted {
							goto nested
						}
					}
					if len(it.q.Text) < 3000 {
						// small quantifier: the instance is stated directly under it (faster for the solvers than an indirection)
						fmt.Fprintf(&b, "(assert (=> %s %s))\n", it.q.Text, inst)
						n++
						goto nested
					}
					{
						qn, ok := qnames[it.q.Text]
						if !ok {
							qn = fmt.Sprintf("Q!%d", len(qnames))
							qnames[it.q.Text] = qn
							fmt.Fprintf(&b, "(declare-const %s Bool)\n(assert (=> %s %s))\n", qn, it.q.Text, qn)
						}
						fmt.Fprintf(&b, "(assert (=> %s %s))\n", qn, inst)
						n++
					}
				nested:
					if it.depth >= 1 || len(vars) > 1 {
						continue
					}
					// quantifiers nested inside this one become instantiable once the outer variable is fixed
					for _, q2 := range vc.quants {
						// only quantifiers directly under this one: one that sits under a further quantifier (an exists, say)
						// still has that quantifier's variable free
						deeper := false
						for _, q3 := range vc.quants {
							if q3.BV != it.q.BV && q3 != q2 && strings.Contains(it.q.Inner, q3.Text) && strings.Contains(q3.Inner, q2.Text) {
								deeper = true
							}
						}
						for _, q3 := range vc.exQuants {
							if strings.Contains(it.q.Inner, q3.Text) && strings.Contains(q3.Inner, q2.Text) {
								deeper = true
							}
						}
						if deeper {
							continue
						}
						if q2.BV != it.q.BV && strings.Contains(it.q.Inner, q2.Text) {
							work = append(work, item{quantRec{BV: q2.BV, More: q2.More, Text: substSym(q2.Text, it.q.BV, tp[0]), Inner: substSym(q2.Inner, it.q.BV, tp[0])}, it.depth + 1})
						}
					}
				}
			}
		}
		fmt.Fprintf(&b, "(assert (not %s))\n", goal)
	}
	b.WriteString("(check-sat)\n")
	// symbols proved equal to an earlier symbol (cells and heap arrays a loop leaves alone) are replaced by it throughout:
	// the solver then needs no equational reasoning over array-sorted constants to see through unchanged state
	text := vc.skipFreshStoresText(vc.substAliases(b.String()))
	path := filepath.Join(dir, fmt.Sprintf("%03d_%s.smt2", idx, sanitize(o.Name)))
	if variant == 1 {
		path = filepath.Join(dir, fmt.Sprintf("%03d_%s.v1.smt2", idx, sanitize(o.Name)))
	}
	if err := os.WriteFile(path, []byte(text), 0o644); err != nil {
		return "", 0, err
	}
	return path, len(text), nil
}

// stripQuantConjuncts weakens a conjunction by dropping its quantified conjuncts (recursively through nested "and"s)
func stripQuantConjuncts(t string) string {
	if !strings.Contains(t, "(forall ") && !strings.Contains(t, "(exists ") {
		return t
	}
	if strings.HasPrefix(t, "(and ") {
		var keep []string
		for _, c := range splitSexp(t)[1:] {
			if k := stripQuantConjuncts(c); k != T {
				keep = append(keep, k)
			}
		}
		return And(keep...)
	}
	return T
}

var selEntryRe = regexp.MustCompile(`\(select ([A-Za-z0-9_]+![0-9]+) ((?:fv|p)_[A-Za-z0-9_]+![0-9]+)\)`)

// skipFreshStoresText applies skipFreshStores to the finished text (reads that only became reads of a defined heap
// version through alias substitution)
func (vc *VC) skipFreshStoresText(text string) string {
	return selEntryRe.ReplaceAllStringFunc(text, func(m string) string {
		sm := selEntryRe.FindStringSubmatch(m)
		h := vc.skipFreshStores(sm[1], sm[2])
		if h == sm[1] {
			return m
		}
		return "(select " + h + " " + sm[2] + ")"
	})
}

func builtinSym(s string) bool {
	switch s {
	case "and", "or", "not", "=>", "=", "<", "<=", ">", ">=", "+", "-", "*", "ite", "div", "mod", "forall", "exists", "!", ":pattern",
		"select", "store", "true", "false", "Int", "Bool", "Array", "as", "const", "let", "distinct":
		return true
	}
	return false
}

func runSolver(ctx context.Context, sp solverSpec, file string, timeout time.Duration) (string, string, float64) {
	args := append([]string{}, sp.Args[1:]...)
	switch sp.Name {
	case "z3", "z3-new", "z3-new/ematch", "z3-new/ematch/s3", "z3-new/ematch/s7", "z3-new/s5", "z3/s2":
		args = append(args, fmt.Sprintf("-T:%d", int(timeout.Seconds())+1))
	case "cvc5":
		args = append(args, fmt.Sprintf("--tlimit=%d", timeout.Milliseconds()))
	}
	args = append(args, file)
	cctx, cancel := context.WithTimeout(ctx, timeout+2*time.Second)
	defer cancel()
	cmd := exec.CommandContext(cctx, sp.Args[0], args...)
	var out bytes.Buffer
	cmd.Stdout = &out
	cmd.Stderr = &out
	t0 := time.Now()
	_ = cmd.Run()
	secs := time.Since(t0).Seconds()
	first := strings.TrimSpace(strings.SplitN(strings.TrimSpace(out.String()), "\n", 2)[0])
	switch first {
	case "unsat", "sat", "unknown":
		return first, out.String(), secs
	}
	if cctx.Err() != nil || strings.Contains(out.String(), "timeout") || strings.Contains(out.String(), "interrupted") {
		return "timeout", out.String(), secs
	}
	return "error", out.String(), secs
}

// race runs the installed solvers in parallel; the first definite answer wins.
func race(file string, timeout time.Duration, expect string) SolveResult {
	return raceWith(solvers, file, timeout)
}

// firstPass: the old z3 rarely wins a race and costs a process per obligation; it joins only the retry pass
var firstPass = solvers

func raceWith(solvers []solverSpec, file string, timeout time.Duration) SolveResult {
	ctx, cancel := context.WithCancel(context.Background())
	defer cancel()
	type res struct {
		status, out, solver string
		secs                float64
	}
	ch := make(chan res, len(solvers))
	var wg sync.WaitGroup
	for _, sp := range solvers {
		wg.Add(1)
		go func(sp solverSpec) {
			defer wg.Done()
			s, o, t := runSolver(ctx, sp, file, timeout)
			ch <- res{s, o, sp.Name, t}
		}(sp)
	}
	go func() { wg.Wait(); close(ch) }()
	var last res
	var outs []string
	for r := range ch {
		outs = append(outs, r.solver+": "+strings.TrimSpace(firstLines(r.out, 3)))
		if r.status == "unsat" || r.status == "sat" {
			cancel()
			return SolveResult{Status: r.status, Solver: r.solver, Secs: r.secs, Output: r.out, File: file}
		}
		if last.status == "" || r.status == "unknown" || (last.status == "error" && r.status != "error") {
			last = r
		}
	}
	st := last.status
	if st == "error" {
		st = "solver-error"
	}
	return SolveResult{Status: st, Solver: "all", Secs: last.secs, Output: strings.Join(outs, "\n"), File: file}
}

func firstLines(s string, n int) string {
	ls := strings.Split(s, "\n")
	if len(ls) > n {
		ls = ls[:n]
	}
	return strings.Join(ls, "\n")
}

// skolemizeGoal replaces universally quantified spec formulas in positive position of the goal by instances at fresh
// constants (nested ones too), and gives positive existential formulas the candidate witnesses of the obligation.
func (vc *VC) skolemizeGoal(goal string, cands []string) (string, []string) {
	var sks []string
	type sub struct{ sym, repl string }
	apply := func(t string, subs []sub) string {
		for _, s := range subs {
			t = substSym(t, s.sym, s.repl)
		}
		return t
	}
	var walk func(t string, pos bool, subs []sub) string
	walk = func(t string, pos bool, subs []sub) string {
		if !strings.HasPrefix(t, "(") {
			return t
		}
		if pos && strings.HasPrefix(t, "(forall ") {
			for _, q := range vc.quants {
				if t == apply(q.Text, subs) {
					ns := append([]sub{}, subs...)
					for _, v := range q.vars() {
						sk := fmt.Sprintf("sk!%d", len(sks))
						sks = append(sks, sk)
						ns = append(ns, sub{v, sk})
					}
					return walk(apply(q.Inner, ns), true, ns)
				}
			}
		}
		if !pos && strings.HasPrefix(t, "(forall ") && len(cands) > 0 && !vc.plainGoal {
			// a universal in negative position is an existential goal: offer the candidate witnesses as explicit instances
			for _, q := range vc.quants {
				if len(q.More) == 0 && t == apply(q.Text, subs) {
					alts := []string{t}
					for _, c := range cands {
						alts = append(alts, substSym(apply(q.Inner, subs), q.BV, c))
					}
					return "(and " + strings.Join(alts, " ") + ")"
				}
			}
		}
		if !pos && strings.HasPrefix(t, "(exists ") && !vc.plainGoal {
			// an existential in negative position is a universal goal: instance at a fresh constant
			for _, q := range vc.exQuants {
				if t == apply(q.Text, subs) {
					ns := append([]sub{}, subs...)
					for _, v := range q.vars() {
						sk := fmt.Sprintf("sk!%d", len(sks))
						sks = append(sks, sk)
						ns = append(ns, sub{v, sk})
					}
					return walk(apply(q.Inner, ns), false, ns)
				}
			}
		}
		if pos && strings.HasPrefix(t, "(exists ") && len(cands) > 0 {
			for _, q := range vc.exQuants {
				if t == apply(q.Text, subs) {
					alts := []string{t}
					for _, c := range cands {
						alts = append(alts, substSym(apply(q.Inner, subs), q.BV, c))
					}
					return "(or " + strings.Join(alts, " ") + ")"
				}
			}
		}
		parts := splitSexp(t)
		if len(parts) == 0 {
			return t
		}
		switch parts[0] {
		case "=":
			// an equivalence between formulas that contain quantifiers: split into the two implications so that each
			// quantifier gets a definite polarity
			if len(parts) == 3 && (strings.Contains(t, "(forall ") || strings.Contains(t, "(exists ")) && pos && !vc.plainGoal {
				a, b := parts[1], parts[2]
				return "(and " + walk("(=> "+a+" "+b+")", true, subs) + " " + walk("(=> "+b+" "+a+")", true, subs) + ")"
			}
			return t
		case "and", "or":
			for i := 1; i < len(parts); i++ {
				parts[i] = walk(parts[i], pos, subs)
			}
		case "=>":
			for i := 1; i < len(parts)-1; i++ {
				parts[i] = walk(parts[i], !pos, subs)
			}
			parts[len(parts)-1] = walk(parts[len(parts)-1], pos, subs)
		case "not":
			parts[1] = walk(parts[1], !pos, subs)
		default:
			return t
		}
		return "(" + strings.Join(parts, " ") + ")"
	}
	g := walk(goal, true, nil)
	return g, sks
}

// splitSexp splits "(op a b ...)" into its top-level components.
func splitSexp(t string) []string {
	if len(t) < 2 || t[0] != '(' {
		return nil
	}
	inner := t[1 : len(t)-1]
	var out []string
	depth := 0
	start := -1
	for i := 0; i < len(inner); i++ {
		c := inner[i]
		switch {
		case c == '(':
			if depth == 0 && start < 0 {
				start = i
			}
			depth++
		case c == ')':
			depth--
			if depth == 0 {
				out = append(out, inner[start:i+1])
				start = -1
			}
		case c == ' ':
			if depth == 0 && start >= 0 {
				out = append(out, inner[start:i])
				start = -1
			}
		default:
			if depth == 0 && start < 0 {
				start = i
			}
		}
	}
	if start >= 0 {
		out = append(out, inner[start:])
	}
	return out
}

// groundApps returns the distinct applications "(f ...)" in text that contain no quantified variable.
// boundApps: the applications of f in text whose last argument is a bound variable (first occurrence of each shape)
func boundApps(text, f string) []string {
	var out []string
	seen := map[string]bool{}
	pat := "(" + f + " "
	for i := 0; i < len(text); {
		j := strings.Index(text[i:], pat)
		if j < 0 {
			break
		}
		st := i + j
		d := 0
		k := st
		for ; k < len(text); k++ {
			if text[k] == '(' {
				d++
			} else if text[k] == ')' {
				d--
				if d == 0 {
					break
				}
			}
		}
		app := text[st : k+1]
		parts := splitSexp(app)
		if len(parts) == 3 && strings.Contains(parts[2], "!q") && !strings.Contains(parts[1], "!q") && !seen[parts[1]] {
			seen[parts[1]] = true
			out = append(out, app)
		}
		i = st + len(pat)
	}
	return out
}

func groundApps(text, f string) []string {
	var out []string
	seen := map[string]bool{}
	pat := "(" + f + " "
	for i := 0; i < len(text); {
		j := strings.Index(text[i:], pat)
		if j < 0 {
			break
		}
		st := i + j
		d := 0
		k := st
		for ; k < len(text); k++ {
			if text[k] == '(' {
				d++
			} else if text[k] == ')' {
				d--
				if d == 0 {
					break
				}
			}
		}
		app := text[st : k+1]
		if !strings.Contains(app, "!q") && !seen[app] {
			seen[app] = true
			out = append(out, app)
		}
		i = st + len(pat)
	}
	return out
}

// substAliases rewrites every aliased symbol to its root, except in declarations.
func (vc *VC) substAliases(text string) string {
	if len(vc.alias) == 0 {
		return text
	}
	var out strings.Builder
	for _, line := range strings.SplitAfter(text, "\n") {
		if strings.HasPrefix(line, "(declare-") {
			out.WriteString(line)
			continue
		}
		i := 0
		n := len(line)
		for i < n {
			c := line[i]
			if c == '(' || c == ')' || c == ' ' || c == '\n' || c == '\t' {
				out.WriteByte(c)
				i++
				continue
			}
			j := i
			for j < n && line[j] != '(' && line[j] != ')' && line[j] != ' ' && line[j] != '\n' && line[j] != '\t' {
				j++
			}
			tok := line[i:j]
			if _, ok := vc.alias[tok]; ok {
				tok = vc.resolve(tok)
			}
			out.WriteString(tok)
			i = j
		}
	}
	return out.String()
}

var boundRe = regexp.MustCompile(`!q[0-9]+`)

// normBound erases the numbering of bound variables so that two evaluations of the same spec formula compare equal.
func normBound(t string) string { return boundRe.ReplaceAllString(t, "!q") }
