package main

import (
	"bytes"
	"context"
	"encoding/json"
	"fmt"
	"go/types"
	"math/big"
	"os"
	"os/exec"
	"path/filepath"
	"regexp"
	"strings"
	"time"
)

// tryReplay turns a failed obligation into a concrete run of the real code when possible:
// model -> Go literals for the parameters -> in-package test injected with -overlay -> outcome.
func tryReplay(w *World, o *oblOut, scratch, verif string) map[string]interface{} {
	out := map[string]interface{}{"reproduced": false}
	vc := o.rep.VC
	fn := vc.Fn
	if o.Status != "sat" {
		// no model (quantified context). First try the quantifier-free relaxation of the query: its models are only
		// candidates, so they count only if the real code fails on them. Then a boundary-value search.
		if cand, _ := getModelRelaxed(o, vc); cand != nil {
			if args, ok := literalArgs(vc, cand); ok {
				if src, ok := harnessFor(vc, args); ok {
					res := runHarness(w, vc, src, scratch, o.Kind)
					if b, _ := res["reproduced"].(bool); b {
						res["input"] = args
						res["model"] = cand
						res["search"] = "candidate model of the quantifier-free relaxation, confirmed on the real code"
						for k, v := range res {
							out[k] = v
						}
						return out
					}
				}
			}
		}
		if res := boundarySearch(w, o, scratch); res != nil {
			for k, v := range res {
				out[k] = v
			}
		}
		return out
	}
	model, raw := getModel(o, vc)
	out["model"] = model
	if model == nil {
		out["model_error"] = firstLines(raw, 5)
		return out
	}
	args, ok := literalArgs(vc, model)
	if !ok {
		out["replay_skipped"] = "parameters of " + fn.Name() + " have no literal form"
		return out
	}
	src, ok := harnessFor(vc, args)
	if !ok {
		out["replay_skipped"] = "no replay harness for " + fn.Name() + " (method without 'replay' clause)"
		return out
	}
	out["input"] = args
	res := runHarness(w, vc, src, scratch, o.Kind)
	for k, v := range res {
		out[k] = v
	}
	return out
}

var valRe = regexp.MustCompile(`\(\s*(\(.*?\)|[^\s()]+)\s+(\(-\s*\d+\)|-?\d+|true|false)\s*\)`)

// getModel asks the solver for the values of entry constants (parameters, first bytes of byte slices, stream contents).
func getModel(o *oblOut, vc *VC) (map[string]string, string) {
	src, err := os.ReadFile(o.file)
	if err != nil {
		return nil, err.Error()
	}
	var terms []string
	for _, p := range vc.Fn.Params {
		v, ok := vc.vals[p]
		if !ok {
			continue
		}
		if v.K == KAddr || v.K == KFunc {
			continue
		}
		terms = append(terms, v.comps()...)
		if v.K == KSlice {
			if isByteSlice(p.Type()) {
				for k := 0; k < 48; k++ {
					terms = append(terms, fmt.Sprintf("(select (select H0_E_u8 %s) (+ %s %d))", v.Reg, v.Off, k))
				}
			}
		}
		if isString(p.Type()) {
			terms = append(terms, app("slen", v.S))
			for k := 0; k < 32; k++ {
				terms = append(terms, fmt.Sprintf("(sbyte %s %d)", v.S, k))
			}
		}
		if isReader(p.Type()) {
			terms = append(terms, app("streamLen", v.S), fmt.Sprintf("(select H0_G_pos %s)", v.S))
			for k := 0; k < 48; k++ {
				terms = append(terms, fmt.Sprintf("(streamByte %s %d)", v.S, k))
			}
		}
	}
	if id := replayReaderTerm(vc); id != "" {
		terms = append(terms, app("streamLen", id), fmt.Sprintf("(select H0_G_pos %s)", id))
		for k := 0; k < 48; k++ {
			terms = append(terms, fmt.Sprintf("(streamByte %s %d)", id, k))
		}
	}
	// declared symbols only
	text := string(src)
	var keep []string
	for _, t := range terms {
		syms := map[string]bool{}
		symbols(t, syms)
		ok := true
		for s := range syms {
			if builtinSym(s) {
				continue
			}
			if !strings.Contains(text, "declare-const "+s+" ") && !strings.Contains(text, "declare-fun "+s+" ") {
				ok = false
			}
		}
		if ok {
			keep = append(keep, t)
		}
	}
	if len(keep) == 0 {
		return map[string]string{}, ""
	}
	q := text + "(get-value (" + strings.Join(keep, " ") + "))\n"
	f := o.file + ".model.smt2"
	os.WriteFile(f, []byte(q), 0o644)
	for _, sp := range []solverSpec{solvers[0], solvers[3], solvers[2]} {
		ctx, cancel := context.WithTimeout(context.Background(), 20*time.Second)
		args := append(append([]string{}, sp.Args[1:]...), f)
		cmd := exec.CommandContext(ctx, sp.Args[0], args...)
		var outb bytes.Buffer
		cmd.Stdout = &outb
		cmd.Stderr = &outb
		cmd.Run()
		cancel()
		s := outb.String()
		if !strings.HasPrefix(strings.TrimSpace(s), "sat") {
			continue
		}
		m := map[string]string{}
		body := s[strings.Index(s, "sat")+3:]
		for _, mm := range valRe.FindAllStringSubmatch(body, -1) {
			m[normSpace(mm[1])] = normNum(mm[2])
		}
		return m, s
	}
	return nil, "no solver produced a model"
}

// getModelRelaxed drops every quantified assertion from the query and asks for a model of what remains.
func getModelRelaxed(o *oblOut, vc *VC) (map[string]string, string) {
	src, err := os.ReadFile(o.file)
	if err != nil {
		return nil, err.Error()
	}
	var keep []string
	for _, l := range strings.Split(string(src), "\n") {
		if strings.Contains(l, "(forall ") || strings.Contains(l, "(exists ") {
			if strings.HasPrefix(l, "(assert (not ") {
				return nil, "goal is quantified"
			}
			continue
		}
		keep = append(keep, l)
	}
	relaxed := o.file + ".relaxed.smt2"
	os.WriteFile(relaxed, []byte(strings.Join(keep, "\n")), 0o644)
	o2 := *o
	o2.file = relaxed
	return getModel(&o2, vc)
}

func normSpace(s string) string { return strings.Join(strings.Fields(s), " ") }
func normNum(s string) string {
	s = strings.TrimSpace(s)
	if strings.HasPrefix(s, "(") {
		s = "-" + strings.TrimSpace(strings.Trim(s[2:], "() "))
	}
	return s
}

func isByteSlice(t types.Type) bool {
	sl, ok := t.Underlying().(*types.Slice)
	if !ok {
		return false
	}
	b, ok := sl.Elem().Underlying().(*types.Basic)
	return ok && b.Kind() == types.Uint8
}

func isReader(t types.Type) bool {
	it, ok := t.Underlying().(*types.Interface)
	if !ok {
		return false
	}
	for i := 0; i < it.NumMethods(); i++ {
		if it.Method(i).Name() == "Read" {
			return true
		}
	}
	return false
}

func modelInt(m map[string]string, term string) (int64, bool) {
	v, ok := m[normSpace(term)]
	if !ok {
		return 0, false
	}
	n, ok := new(big.Int).SetString(v, 10)
	if !ok || !n.IsInt64() {
		return 0, false
	}
	return n.Int64(), true
}

// replayReaderTerm: the reader named by a replay-reader clause (a field of the receiver, say), as an SMT term over the entry state.
func replayReaderTerm(vc *VC) (id string) {
	cls := vc.Con.Of("replay-reader")
	if len(cls) == 0 || vc.entry == nil {
		return ""
	}
	defer func() {
		if r := recover(); r != nil {
			id = ""
		}
	}()
	vc.specDepth++
	defer func() { vc.specDepth-- }()
	env := vc.entryEnv(vc.entry.clone())
	return env.eval(cls[0].Text).S
}

func streamLiteral(m map[string]string, id string) (string, bool) {
	n, _ := modelInt(m, app("streamLen", id))
	pos, _ := modelInt(m, fmt.Sprintf("(select H0_G_pos %s)", id))
	if n-pos > 1<<16 || n-pos < 0 {
		return "", false
	}
	var bs []string
	for k := pos; k < n; k++ {
		b, ok := modelInt(m, fmt.Sprintf("(streamByte %s %d)", id, k))
		if !ok {
			b = 0
		}
		bs = append(bs, fmt.Sprint(((b%256)+256)%256))
	}
	return "[]byte{" + strings.Join(bs, ", ") + "}", true
}

// literalArgs renders each parameter as a Go literal taken from the model.
func literalArgs(vc *VC, m map[string]string) (map[string]string, bool) {
	out := map[string]string{}
	if id := replayReaderTerm(vc); id != "" {
		lit, ok := streamLiteral(m, id)
		if !ok {
			return nil, false
		}
		out["$reader"] = lit
	}
	for _, p := range vc.Fn.Params {
		v := vc.vals[p]
		t := p.Type()
		switch {
		case v.K == KSlice && isByteSlice(t):
			n, _ := modelInt(m, v.Len)
			reg, _ := modelInt(m, v.Reg)
			if n > 1<<20 {
				return nil, false
			}
			if reg == 0 && n == 0 {
				out[p.Name()] = "[]byte(nil)"
				continue
			}
			var bs []string
			for k := int64(0); k < n; k++ {
				b, ok := modelInt(m, fmt.Sprintf("(select (select H0_E_u8 %s) (+ %s %d))", v.Reg, v.Off, k))
				if !ok {
					b = 0
				}
				bs = append(bs, fmt.Sprint(((b%256)+256)%256))
			}
			out[p.Name()] = "[]byte{" + strings.Join(bs, ", ") + "}"
		case v.K == KInt && isString(t):
			n, _ := modelInt(m, app("slen", v.S))
			if n > 1<<16 {
				out[p.Name()] = fmt.Sprintf("strings.Repeat(\"x\", %d)", n)
				continue
			}
			var bs []byte
			for k := int64(0); k < n; k++ {
				b, ok := modelInt(m, fmt.Sprintf("(sbyte %s %d)", v.S, k))
				if !ok {
					b = 'x'
				}
				bs = append(bs, byte(b))
			}
			out[p.Name()] = fmt.Sprintf("%q", string(bs))
		case v.K == KBool:
			out[p.Name()] = m[v.S]
			if out[p.Name()] == "" {
				out[p.Name()] = "false"
			}
		case v.K == KInt && isReader(t):
			n, _ := modelInt(m, app("streamLen", v.S))
			pos, _ := modelInt(m, fmt.Sprintf("(select H0_G_pos %s)", v.S))
			if n-pos > 1<<16 || n-pos < 0 {
				return nil, false
			}
			var bs []string
			for k := pos; k < n; k++ {
				b, ok := modelInt(m, fmt.Sprintf("(streamByte %s %d)", v.S, k))
				if !ok {
					b = 0
				}
				bs = append(bs, fmt.Sprint(((b%256)+256)%256))
			}
			out[p.Name()] = "[]byte{" + strings.Join(bs, ", ") + "}" // harness wraps it into readers with several chunkings
		case v.K == KInt:
			if _, _, isI := intRange(t); isI {
				if x, ok := m[v.S]; ok {
					out[p.Name()] = fmt.Sprintf("%s(%s)", types.TypeString(t, func(*types.Package) string { return "" }), x)
					if strings.Contains(out[p.Name()], ".") {
						out[p.Name()] = x
					}
				} else {
					out[p.Name()] = "0"
				}
				continue
			}
			if vc.Fn.Signature.Recv() != nil && p == vc.Fn.Params[0] {
				out[p.Name()] = "" // receiver: built by the harness
				continue
			}
			return nil, false
		default:
			return nil, false
		}
	}
	return out, true
}

const harnessHeader = `package %s

import (
	"bytes"
	"fmt"
	"io"
	"strings"
	"testing"
	"testing/iotest"
)

var _ = bytes.NewReader
var _ = io.EOF
var _ = strings.Repeat
var _ = iotest.OneByteReader
var _ = fmt.Sprint

type govcEOFReader struct{ b []byte }

// delivers the final bytes together with io.EOF
func (r *govcEOFReader) Read(p []byte) (int, error) {
	n := copy(p, r.b)
	r.b = r.b[n:]
	if len(r.b) == 0 {
		return n, io.EOF
	}
	return n, nil
}

func govcReaders(b []byte) []io.Reader {
	return []io.Reader{bytes.NewReader(b), iotest.OneByteReader(bytes.NewReader(b)), iotest.HalfReader(bytes.NewReader(b)), iotest.DataErrReader(bytes.NewReader(b)), &govcEOFReader{b: append([]byte(nil), b...)}}
}

func govcTry(name string, f func()) (panicked bool) {
	defer func() {
		if r := recover(); r != nil {
			fmt.Printf("GOVC-REPLAY panic in %%s: %%v\n", name, r)
			panicked = true
		}
	}()
	f()
	return false
}
`

// harnessFor builds the test source. The call comes from the contract's replay clause, or is synthesised for plain functions.
func harnessFor(vc *VC, args map[string]string) (string, bool) {
	fn := vc.Fn
	var call string
	if cls := vc.Con.Of("replay"); len(cls) > 0 {
		call = cls[0].Text
	} else if fn.Signature.Recv() == nil && fn.Parent() == nil {
		var as []string
		for _, p := range fn.Params {
			as = append(as, "$"+p.Name())
		}
		call = fn.Name() + "(" + strings.Join(as, ", ") + ")"
	} else {
		return "", false
	}
	hasReader := false
	for _, p := range fn.Params {
		if isReader(p.Type()) {
			hasReader = true
		}
	}
	readerLit, viaClause := args["$reader"]
	if viaClause {
		hasReader = true
	}
	var b strings.Builder
	fmt.Fprintf(&b, harnessHeader, fn.Pkg.Pkg.Name())
	b.WriteString("\nfunc TestGovcReplay(t *testing.T) {\n\tbad := false\n")
	body := call
	if viaClause {
		body = strings.ReplaceAll(body, "$reader", "govcR")
		fmt.Fprintf(&b, "\tgovcData := %s\n", readerLit)
	}
	for _, p := range fn.Params {
		lit := args[p.Name()]
		if isReader(p.Type()) {
			body = strings.ReplaceAll(body, "$"+p.Name(), "govcR")
			fmt.Fprintf(&b, "\tgovcData := %s\n", lit)
			continue
		}
		body = strings.ReplaceAll(body, "$"+p.Name(), lit)
	}
	if hasReader {
		// C18 oracle: the printed result must not depend on how the reader chunks the stream
		fmt.Fprintf(&b, "\tvar govcFirst string\n\tfor i := range govcReaders(govcData) {\n\t\tgovcR := govcReaders(govcData)[i]\n\t\t_ = govcR\n\t\tvar govcOut string\n\t\tif govcTry(fmt.Sprint(\"reader#\", i), func() { govcOut = fmt.Sprint(%s) }) {\n\t\t\tbad = true\n\t\t}\n\t\tif i == 0 {\n\t\t\tgovcFirst = govcOut\n\t\t} else if govcOut != govcFirst {\n\t\t\tfmt.Printf(\"GOVC-REPLAY chunking changes the result: reader#%%d gives %%q, whole-buffer reader gives %%q\\n\", i, govcOut, govcFirst)\n\t\t\tbad = true\n\t\t}\n\t}\n", body)
	} else {
		fmt.Fprintf(&b, "\tif govcTry(\"call\", func() { %s }) {\n\t\tbad = true\n\t}\n", body)
	}
	b.WriteString("\tif bad {\n\t\tfmt.Println(\"GOVC-REPLAY: FAILED\")\n\t\tt.Fail()\n\t} else {\n\t\tfmt.Println(\"GOVC-REPLAY: ok\")\n\t}\n}\n")
	return b.String(), true
}

// runHarness injects the test with -overlay (nothing is written to /repo) and runs it.
func runHarness(w *World, vc *VC, src, scratch, kind string) map[string]interface{} {
	out := map[string]interface{}{}
	fn := vc.Fn
	pkgDir := ""
	for _, p := range w.Pkgs {
		_ = p
	}
	pos := w.Fset.Position(fn.Pos())
	pkgDir = filepath.Dir(pos.Filename)
	vc.W.replayN++
	tdir := filepath.Join(scratch, fmt.Sprintf("replay%d", vc.W.replayN))
	os.MkdirAll(tdir, 0o755)
	testFile := filepath.Join(tdir, "zz_govc_replay_test.go")
	os.WriteFile(testFile, []byte(src), 0o644)
	ov := map[string]map[string]string{"Replace": {filepath.Join(pkgDir, "zz_govc_replay_test.go"): testFile}}
	ob, _ := json.Marshal(ov)
	ovFile := filepath.Join(tdir, "overlay.json")
	os.WriteFile(ovFile, ob, 0o644)
	rel, _ := filepath.Rel(w.Repo, pkgDir)
	ctx, cancel := context.WithTimeout(context.Background(), 150*time.Second)
	defer cancel()
	args := []string{"test", "-modfile=" + filepath.Join(scratch, "go.mod"), "-overlay", ovFile, "-vet=off", "-count=1", "-timeout", "60s", "-run", "^TestGovcReplay$", "./" + rel + "/"}
	cmd := exec.CommandContext(ctx, "go", args...)
	cmd.Dir = w.Repo
	cmd.Env = append(os.Environ(), "GOFLAGS=-mod=mod", "GOPROXY=off", "GOSUMDB=off", "GOTOOLCHAIN=local")
	var ob2 bytes.Buffer
	cmd.Stdout = &ob2
	cmd.Stderr = &ob2
	err := cmd.Run()
	txt := ob2.String()
	var keep []string
	for _, l := range strings.Split(txt, "\n") {
		if strings.Contains(l, "GOVC-REPLAY") || strings.HasPrefix(l, "--- ") || strings.HasPrefix(l, "FAIL") || strings.HasPrefix(l, "ok") || strings.HasPrefix(l, "panic:") || strings.Contains(l, "test timed out") || strings.Contains(l, "zz_govc_replay_test.go") {
			keep = append(keep, l)
		}
	}
	out["go_test_cmd"] = "cd " + w.Repo + " && go " + strings.Join(args, " ")
	out["go_test_output"] = strings.Join(keep, "\n")
	out["harness"] = src
	failed := err != nil && (strings.Contains(txt, "GOVC-REPLAY panic") || strings.Contains(txt, "GOVC-REPLAY: FAILED") || strings.Contains(txt, "test timed out") || strings.Contains(txt, "panic:"))
	out["reproduced"] = failed
	if err != nil && !failed {
		out["replay_error"] = firstLines(txt, 12)
	}
	return out
}

// boundarySearch: no model available; run the harness over boundary inputs (single []byte / reader parameter).
func boundarySearch(w *World, o *oblOut, scratch string) map[string]interface{} {
	vc := o.rep.VC
	fn := vc.Fn
	var target string
	if len(vc.Con.Of("replay-reader")) > 0 {
		target = "$reader"
	}
	for _, p := range fn.Params {
		if target == "$reader" {
			break
		}
		if isByteSlice(p.Type()) || isReader(p.Type()) {
			if target != "" {
				return nil
			}
			target = p.Name()
		} else if fn.Signature.Recv() != nil && p == fn.Params[0] {
			continue
		} else if _, _, isI := intRange(p.Type()); isI {
			continue
		} else {
			return nil
		}
	}
	if target == "" {
		return nil
	}
	// the harness iterates over a corpus instead of a single literal
	args := map[string]string{}
	if target == "$reader" {
		args["$reader"] = "govcCase"
	}
	for _, p := range fn.Params {
		if p.Name() == target {
			args[p.Name()] = "govcCase"
		} else if _, _, isI := intRange(p.Type()); isI {
			args[p.Name()] = "0"
		}
	}
	src, ok := harnessFor(vc, args)
	if !ok {
		return nil
	}
	// wrap: replace single-case body with a loop over the boundary corpus
	corpus := `
func govcCorpus() [][]byte {
	var out [][]byte
	vals := []byte{0, 1, 2, 127, 128, 255}
	out = append(out, nil, []byte{})
	for _, a := range vals {
		out = append(out, []byte{a})
		for _, b := range vals {
			out = append(out, []byte{a, b}, []byte{0, 0, a, b}, []byte{0, 0, 0, 1, a, b}, []byte{0, 0, 0, 2, 0, 1, a, 0, b}, []byte{a, b, 0, 0, 0, 0, 0, 0})
			for _, c := range vals {
				out = append(out, []byte{a, b, c}, []byte{0, 0, 0, 1, a, b, c}, []byte{'P', 'A', 'C', 'K', 0, 0, 0, 1, a, b, c})
			}
		}
	}
	return out
}
`
	src = strings.Replace(src, "\nfunc TestGovcReplay(t *testing.T) {\n\tbad := false\n", corpus+"\nfunc TestGovcReplay(t *testing.T) {\n\tbad := false\n\tfor _, govcCase := range govcCorpus() {\n\tgovcCase := govcCase\n", 1)
	src = strings.Replace(src, "\tif bad {\n\t\tfmt.Println(\"GOVC-REPLAY: FAILED\")", "\tif bad { fmt.Printf(\"GOVC-REPLAY input %v\\n\", govcCase); break }\n\t}\n\tif bad {\n\t\tfmt.Println(\"GOVC-REPLAY: FAILED\")", 1)
	res := runHarness(w, vc, src, scratch, o.Kind)
	res["search"] = "boundary corpus over one byte-slice/reader parameter"
	return res
}
