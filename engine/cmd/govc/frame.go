package main

import (
	"fmt"
	"go/types"
	"strings"

	"golang.org/x/tools/go/ssa"
)

// lockFrame implements the "frame" clauses of functions that run as goroutines (C16, narrow):
//
//	frame shared <recv>.<f1>, <recv>.<f2> guarded-by <recv>.<mu>
//
// Every store to a listed field of the receiver must be dominated by a Lock() of the named mutex and be followed,
// before the end of its basic block, by the matching Unlock() (or lie under a deferred Unlock that dominates it).
// Decided on the SSA dominator tree; no solver involved.
func (vc *VC) lockFrame() {
	for _, cl := range vc.Con.Of("frame") {
		txt := strings.TrimSpace(cl.Text)
		if !strings.HasPrefix(txt, "shared ") {
			panic(specErr("%s:%d: frame shared <fields> guarded-by <mutex>", cl.File, cl.Line))
		}
		parts := strings.Split(txt[len("shared "):], "guarded-by")
		if len(parts) != 2 {
			panic(specErr("%s:%d: frame shared <fields> guarded-by <mutex>", cl.File, cl.Line))
		}
		shared := map[string]bool{}
		for _, f := range strings.Split(parts[0], ",") {
			f = strings.TrimSpace(f)
			if i := strings.LastIndex(f, "."); i >= 0 {
				f = f[i+1:]
			}
			if f != "" {
				shared[f] = true
			}
		}
		mu := strings.TrimSpace(parts[1])
		if i := strings.LastIndex(mu, "."); i >= 0 {
			mu = mu[i+1:]
		}
		fn := vc.Fn
		fieldOf := func(v ssa.Value) (string, bool) {
			fa, ok := v.(*ssa.FieldAddr)
			if !ok {
				return "", false
			}
			st, ok := derefType(fa.X.Type()).Underlying().(*types.Struct)
			if !ok {
				return "", false
			}
			return st.Field(fa.Field).Name(), true
		}
		isMuCall := func(in ssa.Instruction, method string) bool {
			var cc *ssa.CallCommon
			switch c := in.(type) {
			case *ssa.Call:
				cc = &c.Call
			case *ssa.Defer:
				cc = &c.Call
			default:
				return false
			}
			callee := cc.StaticCallee()
			if callee == nil || callee.Name() != method || len(cc.Args) == 0 {
				return false
			}
			f, ok := fieldOf(cc.Args[0])
			return ok && f == mu
		}
		found := 0
		for _, b := range fn.Blocks {
			for idx, in := range b.Instrs {
				st, ok := in.(*ssa.Store)
				if !ok {
					continue
				}
				f, ok := fieldOf(st.Addr)
				if !ok || !shared[f] {
					continue
				}
				found++
				locked := false
				unlocked := false
				// Lock earlier in this block, or in a dominating block
				for j := idx - 1; j >= 0 && !locked; j-- {
					if isMuCall(b.Instrs[j], "Unlock") {
						break
					}
					if isMuCall(b.Instrs[j], "Lock") {
						locked = true
					}
				}
				if !locked {
					for d := b.Idom(); d != nil && !locked; d = d.Idom() {
						for j := len(d.Instrs) - 1; j >= 0; j-- {
							if isMuCall(d.Instrs[j], "Unlock") {
								if _, isDefer := d.Instrs[j].(*ssa.Defer); !isDefer {
									break
								}
							}
							if _, isCall := d.Instrs[j].(*ssa.Call); isCall && isMuCall(d.Instrs[j], "Lock") {
								locked = true
								break
							}
						}
					}
				}
				// Unlock later in this block, or a deferred Unlock that dominates the store
				for j := idx + 1; j < len(b.Instrs); j++ {
					if _, isCall := b.Instrs[j].(*ssa.Call); isCall && isMuCall(b.Instrs[j], "Unlock") {
						unlocked = true
						break
					}
				}
				if !unlocked {
					for d := b; d != nil && !unlocked; d = d.Idom() {
						for _, din := range d.Instrs {
							if _, isDefer := din.(*ssa.Defer); isDefer && isMuCall(din, "Unlock") {
								unlocked = true
							}
						}
					}
				}
				goal := F
				if locked && unlocked {
					goal = T
				}
				k := vc.count("lockframe")
				vc.addObl("lockframe", fmt.Sprintf("lockframe#%d", k), vc.entry, goal, st.Pos(), cl.Tags,
					fmt.Sprintf("store to shared field %s must happen between %s.Lock() and %s.Unlock()", f, mu, mu))
			}
		}
		if found == 0 && !vc.dry {
			vc.addObl("lockframe", "lockframe#none", vc.entry, F, fn.Pos(), cl.Tags, "no store to the declared shared fields was found: the frame clause is stale")
		}
	}
}
