package main

import (
	"fmt"
	"go/ast"
	"go/token"
	"go/types"
	"sort"
	"strings"

	"golang.org/x/tools/go/ssa"
)

// Obl is one proof obligation: under path condition PC, Goal must hold.
type Obl struct {
	Name   string
	Kind   string
	PC     string
	Goal   string
	Pos    token.Position
	Tags   []string // property ids
	Note   string
	Expect string // "unsat" (default) or "sat" for vacuity checks
	Cands  []string // candidate witnesses for existential goals: integer locals at the point of the obligation
	Secondary []string // the candidates among Cands that are offered only when the goal has no skolem constants
	Mark   int      // value of the fresh-symbol counter when the obligation was created (0: unknown)
	CutLo, CutHi int // "loop N local": quantified facts learnt in (CutLo, CutHi] (after entry, before the loop) are left out
	Hi     int      // symbols numbered in (Mark, Hi] were created by later program text and are invisible (0: no upper end)
}

type def struct {
	Name, Sort, Term string
}

type LoopInfo struct {
	Header  *ssa.BasicBlock
	Body    map[*ssa.BasicBlock]bool
	Ordinal int // 1-based, source order
	Pos     token.Pos
	End     token.Pos
	Scope   token.Pos // a position inside the loop body, for resolving identifiers
	Back    []*ssa.BasicBlock // sources of back edges
	// filled during execution
	pre      *State
	hdr      *State
	hdrLocal map[*ssa.Alloc]Val
	hdrHeap  map[string]string
	variant  []string
	backSts  []*State
	backMarks []int // fresh-symbol counter at each back edge
	rangeIdx *ssa.Alloc
	mark     int // value of the fresh-symbol counter when the loop was entered
}

// VC is the verification context of one function under contract.
type VC struct {
	W        *World
	Fn       *ssa.Function
	Con      *Contract
	decls    []string
	declSet  map[string]bool
	defs     []def
	defAt    []int
	assertAt []int
	atOverride int
	entryMark  int
	assertSymsCache []map[string]bool // symbols of vc.asserts[i] (emission only reads them)
	defTerm    map[string]string
	loopAssigned map[*ssa.Alloc]bool
	snapTypes  map[string]bool // element types whose addresses were stored in pointer variables (see Store)
	modelNotes map[string]bool // modelling assumptions made while generating (reported in the evidence)
	asserts  []string // global facts: axioms of spec functions, string literals ...
	axiomSet map[string]bool
	obls     []*Obl
	n        int
	vals     map[ssa.Value]Val
	escaped  map[*ssa.Alloc]bool
	arrays   map[string]string // heap array name -> sort (all names ever touched)
	arrayOrd []string
	dry      bool
	alias    map[string]string
	counters map[string]int
	entry    *State
	params   map[string]Val // spec environment: parameter name -> entry value
	paramObj map[types.Object]Val
	loops    map[*ssa.BasicBlock]*LoopInfo
	loopList []*LoopInfo
	inlined  map[string]bool
	havocked map[string]bool
	usedCons map[string]bool
	depth    int
	strLits  map[string]string
	entryAlloc string
	modset   *ModSet
	notes    []string
	curInstr ssa.Instruction
	results  []retRec
	lets     map[string]Val
	specDepth int
	quants []*quantRec
	refArr map[string]bool
	assumedAt map[string][]string
	plainGoal bool
	curFamily string
	writes []writeRec
	curBlock *ssa.BasicBlock
	macros []string
	curCall *ssa.CallCommon
	iters map[*ssa.Range]iterInfo
	exQuants []*quantRec
	lastPos token.Pos
	specQuant bool
	readSites []string
	searchRes []string
	localFuns map[string]string
}

type retRec struct {
	st   *State
	vals []Val
	pos  token.Pos
}

// State is the symbolic state at a program point.
type State struct {
	pc     string
	locals map[*ssa.Alloc]Val
	heap   map[string]string
	alloc  string
	dead   bool
}

func (s *State) clone() *State {
	n := &State{pc: s.pc, alloc: s.alloc, locals: make(map[*ssa.Alloc]Val, len(s.locals)), heap: make(map[string]string, len(s.heap))}
	for k, v := range s.locals {
		n.locals[k] = v
	}
	for k, v := range s.heap {
		n.heap[k] = v
	}
	return n
}

func newVC(w *World, fn *ssa.Function, con *Contract) *VC {
	return &VC{W: w, Fn: fn, Con: con, declSet: map[string]bool{}, axiomSet: map[string]bool{},
		vals: map[ssa.Value]Val{}, escaped: map[*ssa.Alloc]bool{}, arrays: map[string]string{},
		alias: map[string]string{}, counters: map[string]int{}, loops: map[*ssa.BasicBlock]*LoopInfo{},
		inlined: map[string]bool{}, havocked: map[string]bool{}, usedCons: map[string]bool{}, strLits: map[string]string{},
		lets: map[string]Val{}}
}

func (vc *VC) reset() {
	vc.decls = nil
	vc.declSet = map[string]bool{}
	vc.defs = nil
	vc.defTerm = nil
	vc.asserts = nil
	vc.assertSymsCache = nil
	vc.defAt = nil
	vc.assertAt = nil
	vc.axiomSet = map[string]bool{}
	vc.obls = nil
	vc.n = 0
	vc.vals = map[ssa.Value]Val{}
	vc.alias = map[string]string{}
	vc.counters = map[string]int{}
	vc.strLits = map[string]string{}
	vc.results = nil
	vc.notes = nil
	vc.lets = map[string]Val{}
	vc.quants = nil
	vc.assumedAt = nil
	vc.writes = nil
	vc.macros = nil
	vc.iters = map[*ssa.Range]iterInfo{}
	vc.exQuants = nil
	for _, l := range vc.loopList {
		l.pre, l.hdr, l.hdrLocal, l.hdrHeap, l.variant, l.backSts, l.backMarks = nil, nil, nil, nil, nil, nil, nil
	}
}

func (vc *VC) declare(name, sort string) {
	if vc.declSet[name] {
		return
	}
	vc.declSet[name] = true
	vc.decls = append(vc.decls, fmt.Sprintf("(declare-const %s %s)", name, sort))
}

func (vc *VC) declareFun(name string, args []string, res string) {
	if vc.declSet[name] {
		return
	}
	vc.declSet[name] = true
	vc.decls = append(vc.decls, fmt.Sprintf("(declare-fun %s (%s) %s)", name, strings.Join(args, " "), res))
}

// now: the logical time of a new definition or fact (the fresh-symbol counter, or the time of a loop's entry while that
// loop is being closed: what is learnt about a loop then belongs to the program text before its body)
func (vc *VC) note(s string) {
	if vc.modelNotes == nil {
		vc.modelNotes = map[string]bool{}
	}
	vc.modelNotes[s] = true
}

func (vc *VC) now() int {
	if vc.atOverride > 0 {
		return vc.atOverride
	}
	return vc.n
}

// skipFreshStores: reading cell obj of a one-level heap array h. While h is defined as (store h' o v) with o an object
// created by this function (obj!N) and obj an object that existed at entry (a parameter or captured variable symbol), the
// store cannot concern obj: read from h' instead. Purely a simplification of the emitted term (the solver would derive
// the same from o > alloc0 >= obj), it keeps reads of captured variables syntactically equal across heap versions.
func (vc *VC) skipFreshStores(h, obj string) string {
	if !(strings.HasPrefix(obj, "fv_") || strings.HasPrefix(obj, "p_")) || strings.ContainsAny(obj, " (") {
		return h
	}
	for i := 0; i < 64; i++ {
		t, ok := vc.defTerm[h]
		if !ok || !strings.HasPrefix(t, "(store ") {
			return h
		}
		parts := splitSexp(t)
		if len(parts) != 4 || !strings.HasPrefix(parts[2], "obj!") {
			return h
		}
		h = parts[1]
	}
	return h
}

func (vc *VC) addDef(d def) {
	if vc.defTerm == nil {
		vc.defTerm = map[string]string{}
	}
	vc.defTerm[d.Name] = d.Term
	vc.defs = append(vc.defs, d)
	vc.defAt = append(vc.defAt, vc.now())
}

func (vc *VC) addAssert(t string) {
	vc.asserts = append(vc.asserts, t)
	at := vc.now()
	// a closed axiom (no numbered constant of this run occurs in it) is timeless: it belongs to every obligation that uses
	// its function symbols, whenever it happened to be needed first
	m := map[string]bool{}
	symbols(t, m)
	closed := true
	for sy := range m {
		if symNumber(sy) >= 0 {
			closed = false
			break
		}
	}
	if closed {
		at = 0
	}
	vc.assertAt = append(vc.assertAt, at)
}

func (vc *VC) fresh(prefix, sort string) string {
	vc.n++
	name := fmt.Sprintf("%s!%d", sanitize(prefix), vc.n)
	vc.declare(name, sort)
	return name
}

// name gives a long term a name (a fresh constant with a defining equation).
func (vc *VC) name(prefix, sort, term string) string {
	if len(term) <= 48 && !strings.Contains(term, "ite") {
		return term
	}
	return vc.forceName(prefix, sort, term)
}

func (vc *VC) forceName(prefix, sort, term string) string {
	c := vc.fresh(prefix, sort)
	vc.addDef(def{c, sort, term})
	return c
}

func (vc *VC) axiom(key, term string) {
	if vc.axiomSet[key] {
		return
	}
	vc.axiomSet[key] = true
	vc.addAssert(term)
}

func (vc *VC) count(kind string) int {
	vc.counters[kind]++
	return vc.counters[kind]
}

func (vc *VC) pos(p token.Pos) token.Position {
	if !p.IsValid() && vc.curInstr != nil {
		p = vc.curInstr.Pos()
	}
	if p.IsValid() {
		vc.lastPos = p
	} else {
		p = vc.lastPos
	}
	return vc.W.Fset.Position(p)
}

// declaredInLoop: the variable is declared inside the body of some loop of the function under contract (typically a value
// looked up for the element being processed, e.g. layer := layers[j])
func (vc *VC) declaredInLoop(a *ssa.Alloc) bool {
	if a.Parent() != vc.Fn || vc.Con == nil || !vc.Con.Has("loop-candidates") {
		// opt-in per contract ("loop-candidates"): more candidate terms make every loop step of the function larger
		return false
	}
	if vc.loopAssigned == nil {
		// variables declared or assigned inside the body of some loop (with per-loop loop variables the declaration of
		// "for _, layer := range ..." sits before the loop, the assignment inside it)
		vc.loopAssigned = map[*ssa.Alloc]bool{}
		for _, li := range vc.loopList {
			for b := range li.Body {
				for _, in := range b.Instrs {
					switch x := in.(type) {
					case *ssa.Alloc:
						if b != li.Header {
							vc.loopAssigned[x] = true
						}
					case *ssa.Store:
						if al, ok := x.Addr.(*ssa.Alloc); ok {
							vc.loopAssigned[al] = true
						}
					}
				}
			}
		}
	}
	return vc.loopAssigned[a]
}

func (vc *VC) addObl(kind, name string, st *State, goal string, p token.Pos, tags []string, note string) {
	if vc.dry {
		return
	}
	if goal == T {
		// trivially true: still counted, discharged syntactically
	}
	o := &Obl{Name: name, Kind: kind, PC: st.pc, Goal: goal, Pos: vc.pos(p), Tags: tags, Note: note, Mark: vc.n}
	if strings.Contains(goal, "(exists ") || kind == "pre" || kind == "idx" || kind == "slice" || kind == "site" || kind == "inv-step" || kind == "search" {
		for _, a := range sortedAllocs(st.locals) {
			v := st.locals[a]
			if kind == "inv-step" && a.Comment != "rangeindex" && !strings.Contains(goal, "(exists ") && !vc.declaredInLoop(a) {
				continue // loop steps: the range index (the element just processed) and the integers declared in loop bodies
			}
			if v.K == KInt && v.T != nil {
				if _, _, ok := intRange(v.T); ok && len(o.Cands) < 12 {
					o.Cands = append(o.Cands, v.S)
					if a.Comment == "rangeindex" {
						o.Cands = append(o.Cands, Add(v.S, "1"))
					} else if kind == "inv-step" {
						// secondary candidates: used only for goals without bound variables of their own
						o.Secondary = append(o.Secondary, v.S)
						if strings.Contains(goal, "(exists ") {
							// a counter that was just incremented: the position processed in this step is one below it
							o.Cands = append(o.Cands, Sub(v.S, "1"))
						}
					}
				}
			}
		}
	}
	// inside the body of a loop marked "local", obligations are proved from that loop's invariants, the function's
	// requires and the unchanged state: quantified facts learnt between function entry and the loop are left out
	if vc.curBlock != nil && vc.Con != nil && kind != "inv-entry" && kind != "inv-step" && kind != "dec" && kind != "post" && kind != "lemma" && kind != "vac" {
		var inner *LoopInfo
		for _, li := range vc.loopList {
			if li.Body[vc.curBlock] && li.hdr != nil && len(vc.Con.OfLoop("local", li.Ordinal)) > 0 && (inner == nil || len(li.Body) < len(inner.Body)) {
				inner = li
			}
		}
		if inner != nil && o.Mark > inner.mark {
			o.CutLo, o.CutHi = vc.entryMark, inner.mark
		}
	}
	if kind == "inv-step" && strings.Contains(goal, "(exists ") && len(o.Cands) > 4 {
		// witnesses of a loop step: the positions just processed come first (range indices and their successors,
		// which addObl put in as v, v+1), and only a few candidates are offered: every candidate is a copy of the body
		var first, rest []string
		// the position a range loop is at, written as its invariants write it (header value of the index + 1): with this
		// witness the quantified parts of the goal are literally the assumed invariant
		for _, li := range vc.loopList {
			if li.rangeIdx != nil && li.hdrLocal != nil {
				if hv, ok := li.hdrLocal[li.rangeIdx]; ok && hv.K == KInt {
					first = append(first, Add(hv.S, "1"))
				}
			}
		}
		for _, a := range sortedAllocs(st.locals) {
			if a.Comment == "rangeindex" {
				if v := st.locals[a]; v.K == KInt {
					first = append(first, v.S, Add(v.S, "1"))
				}
			}
		}
		isFirst := map[string]bool{}
		for _, f := range first {
			isFirst[f] = true
		}
		for _, c := range o.Cands {
			if !isFirst[c] {
				rest = append(rest, c)
			}
		}
		o.Cands = append(first, rest...)
		if len(o.Cands) > 4 {
			o.Cands = o.Cands[:4]
		}
	}
	vc.obls = append(vc.obls, o)
}

func (st *State) assume(vc *VC, fact string) {
	if fact == T {
		return
	}
	if strings.Contains(fact, "(forall ") {
		// remember under which path condition each quantified spec formula was assumed: its ground instances can then be
		// stated under that path condition (the solver need not re-derive the quantified formula itself)
		st.pc = vc.forceName("pc", "Bool", And(st.pc, fact))
		for _, q := range vc.quants {
			if strings.Contains(fact, q.Text) {
				// only where the quantified formula occurs positively: as a conjunct, possibly under the conclusions of
				// implications, whose hypotheses then guard the instance together with the path condition
				for _, g := range positiveGuards(fact, q.Text, nil) {
					if vc.assumedAt == nil {
						vc.assumedAt = map[string][]string{}
					}
					vc.assumedAt[q.Text] = append(vc.assumedAt[q.Text], And(append([]string{st.pc}, g...)...))
				}
			}
		}
		return
	}
	st.pc = vc.name("pc", "Bool", And(st.pc, fact))
}

// positiveGuards: the occurrences of q as a positive conjunct of fact. Each result is the list of hypotheses of the
// implications it sits under (fact = (and .. (=> A (and .. q ..)) ..) gives [A]). Occurrences under negation, on the left of
// an implication, in a disjunction or an ite are not reported.
func positiveGuards(fact, q string, guard []string) [][]string {
	if fact == q {
		return [][]string{append([]string(nil), guard...)}
	}
	if !strings.Contains(fact, q) {
		return nil
	}
	var out [][]string
	switch {
	case strings.HasPrefix(fact, "(and "):
		for _, c := range splitSexp(fact)[1:] {
			out = append(out, positiveGuards(c, q, guard)...)
		}
	case strings.HasPrefix(fact, "(=> "):
		parts := splitSexp(fact)
		if len(parts) == 3 {
			out = append(out, positiveGuards(parts[2], q, append(append([]string(nil), guard...), parts[1]))...)
		}
	case strings.HasPrefix(fact, "(! "):
		parts := splitSexp(fact)
		if len(parts) >= 2 {
			out = append(out, positiveGuards(parts[1], q, guard)...)
		}
	}
	return out
}

// ---------- heap ----------

func (vc *VC) heapGet(st *State, name, sort string) string {
	if _, ok := vc.arrays[name]; !ok {
		vc.arrays[name] = sort
		vc.arrayOrd = append(vc.arrayOrd, name)
	}
	if v, ok := st.heap[name]; ok {
		return v
	}
	if !vc.dry {
		// every state is fully populated in the real run; reaching this means the dry run missed a name
		panic(unsupported("internal: heap array %s not discovered by the dry run", name))
	}
	init := "H0_" + name
	vc.declare(init, sort)
	st.heap[name] = init
	return init
}

func (vc *VC) heapSet(st *State, name, sort, term string) {
	if _, ok := vc.arrays[name]; !ok {
		vc.arrays[name] = sort
		vc.arrayOrd = append(vc.arrayOrd, name)
	}
	st.heap[name] = vc.forceName("H_"+name, sort, term)
	vc.noteWrite(name, term)
}

// writeRec: one heap update, remembered for loop frame inference.
type writeRec struct {
	name   string
	target string // object / region the update touches ("" = unknown: the whole array may change)
	block  *ssa.BasicBlock
	index  string // the single element of the target that is updated ("" = any element)
}

func (vc *VC) noteWrite(name, term string) {
	if vc.dry {
		return
	}
	tgt := ""
	if strings.HasPrefix(term, "(store ") {
		if parts := splitSexp(term); len(parts) == 4 {
			tgt = parts[2]
		}
	}
	idx := ""
	if tgt != "" {
		// a single-element update  (store H t (store (select H t) idx v)): remember the element too
		parts := splitSexp(term)
		if strings.HasPrefix(parts[3], "(store ") {
			if in := splitSexp(parts[3]); len(in) == 4 && in[1] == Sel(parts[1], parts[2]) {
				idx = in[2]
			}
		}
	}
	vc.writes = append(vc.writes, writeRec{name, tgt, vc.curBlock, idx})
}

func arrSort(s string) string  { return "(Array Int " + s + ")" }
func arr2Sort(s string) string { return "(Array Int (Array Int " + s + "))" }

func fieldPathName(root types.Type, path []int) (string, types.Type) {
	t := root
	name := ""
	for _, i := range path {
		st := t.Underlying().(*types.Struct)
		name += "_" + sanitize(st.Field(i).Name())
		t = st.Field(i).Type()
	}
	return name, t
}

// arrayNames returns, for an address, the heap arrays (one per scalar component) and the index terms.
func (vc *VC) cellArrays(a *Addr) (names []string, sorts []string, two bool) {
	switch a.Kind {
	case AField:
		p, t := fieldPathName(a.Root, a.Path)
		for _, c := range flatten(t) {
			names = append(names, "F_"+typeKey(a.Root)+p+c.Suffix)
			sorts = append(sorts, c.Sort)
			vc.noteRef(names[len(names)-1], c.Ref)
		}
	case ABox:
		p, t := fieldPathName(a.Root, a.Path)
		for _, c := range flatten(t) {
			names = append(names, "P_"+typeKey(a.Root)+p+c.Suffix)
			sorts = append(sorts, c.Sort)
			vc.noteRef(names[len(names)-1], c.Ref)
		}
	case AElem:
		p, t := fieldPathName(a.Root, a.Path)
		for _, c := range flatten(t) {
			names = append(names, "E_"+typeKey(a.Root)+p+c.Suffix)
			sorts = append(sorts, c.Sort)
			vc.noteRef(names[len(names)-1], c.Ref)
		}
		two = true
	}
	return
}

func (vc *VC) noteRef(name string, ref bool) {
	if ref {
		if vc.refArr == nil {
			vc.refArr = map[string]bool{}
		}
		vc.refArr[name] = true
	}
}

// refBound: every id stored in a reference-typed heap array was allocated before the point the array value was created.
func (vc *VC) refBound(name, arr, alloc string) {
	if vc.dry {
		return
	}
	if !vc.refArr[name] {
		return
	}
	sort := vc.arrays[name]
	if strings.HasPrefix(sort, "(Array Int (Array") {
		vc.define(fmt.Sprintf("(forall ((r Int) (i Int)) (! (and (<= 0 (select (select %s r) i)) (<= (select (select %s r) i) %s)) :pattern ((select (select %s r) i))))", arr, arr, alloc, arr))
	} else if strings.HasPrefix(sort, "(Array Int Int") {
		vc.define(fmt.Sprintf("(forall ((o Int)) (! (and (<= 0 (select %s o)) (<= (select %s o) %s)) :pattern ((select %s o))))", arr, arr, alloc, arr))
	}
}

func (vc *VC) load(st *State, a *Addr) Val {
	if a.Kind == ALocal {
		v, ok := st.locals[a.Alloc]
		if !ok {
			panic(unsupported("load of local %s before its allocation", a.Alloc.Comment))
		}
		for _, i := range a.Path {
			v = v.Fs[i]
		}
		return v
	}
	names, sorts, two := vc.cellArrays(a)
	cs := make([]string, len(names))
	for i, n := range names {
		if two {
			cs[i] = Sel(Sel(vc.heapGet(st, n, arr2Sort(sorts[i])), a.Reg), a.Idx)
		} else {
			cs[i] = Sel(vc.skipFreshStores(vc.heapGet(st, n, arrSort(sorts[i])), a.Obj), a.Obj)
		}
	}
	v, _ := rebuild(a.T, cs)
	if vc.specDepth == 0 {
		st.assume(vc, vc.valid(st, v))
	}
	return v
}

func setPath(v Val, path []int, nv Val) Val {
	if len(path) == 0 {
		return nv
	}
	out := v
	out.Fs = append([]Val(nil), v.Fs...)
	out.Fs[path[0]] = setPath(v.Fs[path[0]], path[1:], nv)
	return out
}

func (vc *VC) store(st *State, a *Addr, v Val) {
	if a.Kind == ALocal {
		if len(a.Path) == 0 {
			st.locals[a.Alloc] = v
		} else {
			st.locals[a.Alloc] = setPath(st.locals[a.Alloc], a.Path, v)
		}
		return
	}
	names, sorts, two := vc.cellArrays(a)
	cs := v.comps()
	if len(cs) != len(names) {
		panic(unsupported("store: component mismatch for %s (%d vs %d)", a.T, len(cs), len(names)))
	}
	vc.frameCheck(st, a)
	for i, n := range names {
		if two {
			h := vc.heapGet(st, n, arr2Sort(sorts[i]))
			vc.heapSet(st, n, arr2Sort(sorts[i]), Sto(h, a.Reg, Sto(Sel(h, a.Reg), a.Idx, cs[i])))
		} else {
			h := vc.heapGet(st, n, arrSort(sorts[i]))
			vc.heapSet(st, n, arrSort(sorts[i]), Sto(h, a.Obj, cs[i]))
		}
	}
}

// valid returns the type invariant of a value (integer ranges, slice header sanity, ids allocated).
func (vc *VC) valid(st *State, v Val) string {
	switch v.K {
	case KInt:
		if v.T == nil {
			return T
		}
		if lo, hi, ok := intRange(v.T); ok {
			if _, isN := isNum(v.S); isN {
				return T
			}
			return And(Le(num(lo), v.S), Le(v.S, num(hi)))
		}
		if isString(v.T) {
			vc.needStr()
			return T
		}
		if isFloat(v.T) {
			return T
		}
		if _, isN := isNum(v.S); isN {
			return T
		}
		// pointer-like or opaque id: allocated before now
		return And(Le("0", v.S), Le(v.S, st.alloc))
	case KSlice:
		// slice headers: sane, allocated, and (assumption A3) far below 2^62 in extent
		return And(Le("0", v.Reg), Le(v.Reg, st.alloc), Le("0", v.Off), Le("0", v.Len), Le(v.Len, v.Cap),
			Le(Add(v.Off, v.Cap), "4611686018427387904"), Imp(Eq(v.Reg, "0"), Eq(v.Cap, "0")))
	case KStruct, KTuple:
		var fs []string
		for _, f := range v.Fs {
			fs = append(fs, vc.valid(st, f))
		}
		return And(fs...)
	}
	return T
}

func (vc *VC) needStr() {
	vc.declareFun("slen", []string{"Int"}, "Int")
	vc.declareFun("sbyte", []string{"Int", "Int"}, "Int")
	vc.declare("str_empty", "Int")
	vc.axiom("slen_nonneg", "(forall ((s Int)) (! (>= (slen s) 0) :pattern ((slen s))))")
	vc.axiom("sbyte_range", "(forall ((s Int) (i Int)) (! (and (<= 0 (sbyte s i)) (<= (sbyte s i) 255)) :pattern ((sbyte s i))))")
	vc.axiom("str_empty", "(= (slen str_empty) 0)")
	vc.axiom("str_empty_unique", "(forall ((s Int)) (! (=> (= (slen s) 0) (= s str_empty)) :pattern ((slen s))))")
}

// freshVal makes an unconstrained value of a type (constraints are returned by valid()).
func (vc *VC) freshVal(prefix string, t types.Type) Val {
	cs := flatten(t)
	terms := make([]string, len(cs))
	for i, c := range cs {
		terms[i] = vc.fresh(prefix+c.Suffix, c.Sort)
	}
	v, _ := rebuild(t, terms)
	if isString(t) {
		vc.needStr()
	}
	return v
}

func (vc *VC) newObj(st *State) string {
	id := vc.forceName("obj", "Int", Add(st.alloc, "1"))
	st.alloc = id
	return id
}

func (vc *VC) strLit(s string) string {
	if s == "" {
		vc.needStr()
		return "str_empty"
	}
	if c, ok := vc.strLits[s]; ok {
		return c
	}
	vc.needStr()
	c := fmt.Sprintf("strlit!%d", len(vc.strLits))
	vc.declare(c, "Int")
	vc.strLits[s] = c
	facts := []string{Eq(app("slen", c), numI(int64(len(s))))}
	if len(s) <= 64 {
		for i := 0; i < len(s); i++ {
			facts = append(facts, Eq(app("sbyte", c, numI(int64(i))), numI(int64(s[i]))))
		}
	}
	// distinct literals are distinct ids
	var others []string
	for o, oc := range vc.strLits {
		if o != s {
			others = append(others, oc)
		}
	}
	sort.Strings(others)
	for _, oc := range others {
		facts = append(facts, Ne(c, oc))
	}
	vc.addAssert(And(facts...))
	return c
}

func mergeVals(vc *VC, prefix string, conds []string, vs []Val) Val {
	v0 := vs[0]
	same := true
	for _, v := range vs[1:] {
		if v.K != v0.K {
			panic(unsupported("merge of values of different kinds at %s", prefix))
		}
	}
	switch v0.K {
	case KInt, KBool:
		t := vs[len(vs)-1].S
		for i := len(vs) - 2; i >= 0; i-- {
			if vs[i].S != t {
				same = false
			}
			t = Ite(conds[i], vs[i].S, t)
		}
		out := v0
		if !same {
			sort := "Int"
			if v0.K == KBool {
				sort = "Bool"
			}
			out.S = vc.name(prefix, sort, t)
		}
		return out
	case KSlice:
		out := v0
		pick := func(f func(Val) string, sfx string) string {
			t := f(vs[len(vs)-1])
			for i := len(vs) - 2; i >= 0; i-- {
				t = Ite(conds[i], f(vs[i]), t)
			}
			return vc.name(prefix+sfx, "Int", t)
		}
		out.Reg = pick(func(v Val) string { return v.Reg }, "_reg")
		out.Off = pick(func(v Val) string { return v.Off }, "_off")
		out.Len = pick(func(v Val) string { return v.Len }, "_len")
		out.Cap = pick(func(v Val) string { return v.Cap }, "_cap")
		return out
	case KStruct, KTuple:
		out := v0
		out.Fs = make([]Val, len(v0.Fs))
		for j := range v0.Fs {
			col := make([]Val, len(vs))
			for i := range vs {
				col[i] = vs[i].Fs[j]
			}
			out.Fs[j] = mergeVals(vc, prefix, conds, col)
		}
		return out
	case KAddr:
		for _, v := range vs[1:] {
			if !(v.A.Kind == v0.A.Kind && v.A.Alloc == v0.A.Alloc && v.A.Obj == v0.A.Obj && v.A.Reg == v0.A.Reg && v.A.Idx == v0.A.Idx && fmt.Sprint(v.A.Path) == fmt.Sprint(v0.A.Path)) {
				panic(unsupported("merge of different addresses"))
			}
		}
		return v0
	case KFunc:
		for _, v := range vs[1:] {
			if v.Fn != v0.Fn {
				panic(unsupported("merge of different functions"))
			}
		}
		return v0
	}
	return v0
}

// mergeStates joins states arriving over mutually exclusive edges.
func (vc *VC) mergeStates(label string, sts []*State) *State {
	if len(sts) == 1 {
		return sts[0].clone()
	}
	conds := make([]string, len(sts))
	for i, s := range sts {
		conds[i] = s.pc
	}
	out := &State{locals: map[*ssa.Alloc]Val{}, heap: map[string]string{}}
	out.pc = vc.forceName("pc_"+label, "Bool", Or(conds...))
	// locals present in every predecessor
	for _, k := range sortedAllocs(sts[0].locals) {
		v0 := sts[0].locals[k]
		vs := []Val{v0}
		ok := true
		for _, s := range sts[1:] {
			v, has := s.locals[k]
			if !has {
				ok = false
				break
			}
			vs = append(vs, v)
		}
		if !ok {
			continue
		}
		func() {
			defer func() {
				if r := recover(); r != nil {
					if _, isU := r.(Unsupported); !isU {
						panic(r)
					}
					// incompatible cell contents: the cell is dropped (dead or out of subset if used later)
					if _, isPtr := derefType(k.Type()).Underlying().(*types.Pointer); isPtr {
						// a pointer variable that holds nil on one path and the address of a slice element on another: after
						// the join it is an unknown pointer whose pointee is a box of its own. Sound only while the element is
						// not written through the slice as long as the pointer is in use (reported as an assumption)
						vc.note("pointer variable " + k.Comment + " (" + vc.Fn.Name() + ") holds addresses of slice elements across a join: its pointee is modelled as a separate cell, i.e. the element is assumed not to be written while the pointer is live")
					}
				}
			}()
			out.locals[k] = mergeVals(vc, "m_"+k.Comment, conds, vs)
		}()
	}
	names := map[string]bool{}
	for _, s := range sts {
		for n := range s.heap {
			names[n] = true
		}
	}
	var ord []string
	for n := range names {
		ord = append(ord, n)
	}
	sort.Strings(ord)
	for _, n := range ord {
		ts := make([]string, len(sts))
		for i, s := range sts {
			ts[i] = vc.heapGet(s, n, vc.arrays[n])
		}
		t := ts[len(ts)-1]
		for i := len(ts) - 2; i >= 0; i-- {
			t = Ite(conds[i], ts[i], t)
		}
		if strings.HasPrefix(t, "(") {
			t = vc.forceName("Hm_"+n, vc.arrays[n], t)
		}
		out.heap[n] = t
	}
	al := sts[len(sts)-1].alloc
	for i := len(sts) - 2; i >= 0; i-- {
		al = Ite(conds[i], sts[i].alloc, al)
	}
	out.alloc = vc.name("alloc", "Int", al)
	return out
}

func (vc *VC) resolve(sym string) string {
	for i := 0; i < 100; i++ {
		n, ok := vc.alias[sym]
		if !ok {
			return sym
		}
		sym = n
	}
	return sym
}

// ---------- loops ----------

func (vc *VC) findLoops() error {
	fn := vc.Fn
	vc.loops = map[*ssa.BasicBlock]*LoopInfo{}
	vc.loopList = nil
	for _, b := range fn.Blocks {
		for _, s := range b.Succs {
			if s.Dominates(b) { // back edge b -> s
				li := vc.loops[s]
				if li == nil {
					li = &LoopInfo{Header: s, Body: map[*ssa.BasicBlock]bool{s: true}}
					vc.loops[s] = li
					vc.loopList = append(vc.loopList, li)
				}
				li.Back = append(li.Back, b)
				// natural loop body: nodes that reach b without passing s
				stack := []*ssa.BasicBlock{b}
				for len(stack) > 0 {
					x := stack[len(stack)-1]
					stack = stack[:len(stack)-1]
					if li.Body[x] {
						continue
					}
					li.Body[x] = true
					stack = append(stack, x.Preds...)
				}
			}
		}
	}
	// source order: positions of the loop statements in the AST
	var stmts []ast.Node
	if syn := fn.Syntax(); syn != nil {
		var body *ast.BlockStmt
		switch s := syn.(type) {
		case *ast.FuncDecl:
			body = s.Body
		case *ast.FuncLit:
			body = s.Body
		}
		if body != nil {
			ast.Inspect(body, func(n ast.Node) bool {
				switch n.(type) {
				case *ast.FuncLit:
					return false
				case *ast.ForStmt, *ast.RangeStmt:
					stmts = append(stmts, n)
				}
				return true
			})
		}
	}
	// match each natural loop to the innermost statement containing one of its body instructions
	for _, li := range vc.loopList {
		var best ast.Node
		for b := range li.Body {
			for _, in := range b.Instrs {
				p := in.Pos()
				if !p.IsValid() {
					continue
				}
				for _, s := range stmts {
					if s.Pos() <= p && p < s.End() {
						// candidate must contain *all* positioned instructions of the loop: check later; take outermost-consistent
						_ = s
					}
				}
			}
		}
		// choose the smallest statement containing every positioned instruction of the loop body
		for _, s := range stmts {
			all := true
			any := false
			for b := range li.Body {
				for _, in := range b.Instrs {
					if _, isDbg := in.(*ssa.DebugRef); isDbg {
						continue
					}
					p := in.Pos()
					if !p.IsValid() {
						continue
					}
					any = true
					if !(s.Pos() <= p && p < s.End()) {
						all = false
					}
				}
			}
			if all && any {
				if best == nil || (s.End()-s.Pos()) < (best.End()-best.Pos()) {
					best = s
				}
			}
		}
		if best == nil {
			return fmt.Errorf("cannot match a natural loop (header block %d) to a for statement", li.Header.Index)
		}
		li.Pos = best.Pos()
		li.End = best.End()
		li.Scope = best.Pos()
		switch x := best.(type) {
		case *ast.ForStmt:
			li.Scope = x.Body.Lbrace + 1
		case *ast.RangeStmt:
			li.Scope = x.Body.Lbrace + 1
		}
		for i, s := range stmts {
			if s == best {
				li.Ordinal = i + 1
			}
		}
	}
	seen := map[int]bool{}
	for _, li := range vc.loopList {
		if seen[li.Ordinal] {
			return fmt.Errorf("two natural loops map to source loop %d", li.Ordinal)
		}
		seen[li.Ordinal] = true
		// range index cell
		for _, in := range li.Header.Instrs {
			if st, ok := in.(*ssa.Store); ok {
				if a, ok := st.Addr.(*ssa.Alloc); ok && a.Comment == "rangeindex" {
					li.rangeIdx = a
				}
			}
		}
	}
	sort.Slice(vc.loopList, func(i, j int) bool { return vc.loopList[i].Ordinal < vc.loopList[j].Ordinal })
	return nil
}

// order returns the blocks in an order where every forward predecessor comes first.
func (vc *VC) order() []*ssa.BasicBlock {
	fn := vc.Fn
	indeg := map[*ssa.BasicBlock]int{}
	isBack := func(p, s *ssa.BasicBlock) bool { return s.Dominates(p) }
	for _, b := range fn.Blocks {
		for _, s := range b.Succs {
			if !isBack(b, s) {
				indeg[s]++
			}
		}
	}
	var out []*ssa.BasicBlock
	var ready []*ssa.BasicBlock
	ready = append(ready, fn.Blocks[0])
	done := map[*ssa.BasicBlock]bool{}
	for len(ready) > 0 {
		// smallest index first for determinism
		sort.Slice(ready, func(i, j int) bool { return ready[i].Index < ready[j].Index })
		b := ready[0]
		ready = ready[1:]
		if done[b] {
			continue
		}
		done[b] = true
		out = append(out, b)
		for _, s := range b.Succs {
			if isBack(b, s) {
				continue
			}
			indeg[s]--
			if indeg[s] == 0 {
				ready = append(ready, s)
			}
		}
	}
	return out
}
