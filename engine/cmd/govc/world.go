package main

import (
	"fmt"
	"go/token"
	"go/types"
	"os"
	"path/filepath"
	"strings"

	"golang.org/x/tools/go/packages"
	"golang.org/x/tools/go/ssa"
	"golang.org/x/tools/go/ssa/ssautil"
)

const repoModule = "github.com/wrgl/wrgl"

// World is everything loaded once per run: packages, SSA, contracts.
type World struct {
	Repo      string
	Fset      *token.FileSet
	Prog      *ssa.Program
	Pkgs      []*packages.Package
	SSAPkgs   map[string]*ssa.Package
	DB        *ContractDB
	Funcs     map[string]*ssa.Function // full key -> function
	globalIDs map[string]int
	pureFuncs map[string]bool
	deferOK   map[string]bool
	exactConv bool
	strictHavoc bool
	Scratch   string
	replayN   int
}

func loadWorld(repo, specDir, scratch string, patterns []string) (*World, error) {
	w := &World{Repo: repo, globalIDs: map[string]int{}, pureFuncs: map[string]bool{}, deferOK: map[string]bool{}, Scratch: scratch,
		SSAPkgs: map[string]*ssa.Package{}, Funcs: map[string]*ssa.Function{}}
	// never let the go command rewrite /repo/go.mod: work from a scratch copy
	for _, f := range []string{"go.mod", "go.sum"} {
		b, err := os.ReadFile(filepath.Join(repo, f))
		if err != nil {
			return nil, err
		}
		if err := os.WriteFile(filepath.Join(scratch, f), b, 0o644); err != nil {
			return nil, err
		}
	}
	cfg := &packages.Config{
		Mode:       packages.LoadAllSyntax,
		Dir:        repo,
		BuildFlags: []string{"-tags=verif", "-modfile=" + filepath.Join(scratch, "go.mod")},
		Env:        append(os.Environ(), "GOFLAGS=-mod=mod", "GOPROXY=off", "GOSUMDB=off", "GOTOOLCHAIN=local"),
	}
	pkgs, err := packages.Load(cfg, patterns...)
	if err != nil {
		return nil, err
	}
	var errs []string
	packages.Visit(pkgs, nil, func(p *packages.Package) {
		if strings.HasPrefix(p.PkgPath, repoModule) {
			for _, e := range p.Errors {
				errs = append(errs, e.Error())
			}
		}
	})
	if len(errs) > 0 {
		return nil, fmt.Errorf("package errors:\n%s", strings.Join(errs, "\n"))
	}
	w.Pkgs = pkgs
	prog, _ := ssautil.AllPackages(pkgs, ssa.NaiveForm|ssa.GlobalDebug)
	prog.Build()
	w.Prog = prog
	w.Fset = prog.Fset
	pkgDirs := map[string]string{}
	for _, p := range prog.AllPackages() {
		w.SSAPkgs[p.Pkg.Path()] = p
	}
	packages.Visit(pkgs, nil, func(p *packages.Package) {
		if strings.HasPrefix(p.PkgPath, repoModule) && len(p.GoFiles) > 0 {
			pkgDirs[p.PkgPath] = filepath.Dir(p.GoFiles[0])
		}
	})
	db, err := loadContracts(repo, specDir, pkgDirs)
	if err != nil {
		return nil, err
	}
	w.DB = db
	// index functions (including methods and anonymous functions) of repo packages
	for _, p := range prog.AllPackages() {
		if !strings.HasPrefix(p.Pkg.Path(), repoModule) {
			continue
		}
		var add func(fn *ssa.Function)
		add = func(fn *ssa.Function) {
			if fn == nil {
				return
			}
			w.Funcs[fnFullName(fn)] = fn
			for _, a := range fn.AnonFuncs {
				add(a)
			}
		}
		for _, m := range p.Members {
			switch x := m.(type) {
			case *ssa.Function:
				add(x)
			case *ssa.Type:
				for _, t := range []types.Type{x.Type(), types.NewPointer(x.Type())} {
					ms := prog.MethodSets.MethodSet(t)
					for i := 0; i < ms.Len(); i++ {
						fn := prog.MethodValue(ms.At(i))
						if fn != nil && fn.Synthetic == "" {
							add(fn)
						}
					}
				}
			}
		}
	}
	for _, n := range []string{"time.Now", "math.Log2", "math.Floor", "math.Ceil", "strings.HasPrefix", "strings.TrimPrefix", "strings.Join",
		"strings.Contains", "strings.Split", "time.(Time).Unix", "time.(Time).IsZero", "time.(Time).Format", "time.(Time).After", "time.(Time).Before", "time.(Time).Equal"} {
		w.pureFuncs[n] = true
	}
	return w, nil
}

func (w *World) inRepo(fn *ssa.Function) bool {
	if fn.Package() != nil {
		return strings.HasPrefix(fn.Package().Pkg.Path(), repoModule)
	}
	return false
}

func (w *World) pkgByPath(path string) *types.Package {
	if p, ok := w.SSAPkgs[path]; ok {
		return p.Pkg
	}
	return nil
}

// pkgByName resolves a package qualifier used in a spec: imports of the context package first.
func (w *World) pkgByName(name string, ctx *types.Package) *types.Package {
	if ctx != nil {
		for _, imp := range ctx.Imports() {
			if imp.Name() == name {
				return imp
			}
		}
	}
	var found *types.Package
	for _, p := range w.Prog.AllPackages() {
		if p.Pkg.Name() == name {
			if found != nil && found != p.Pkg {
				// ambiguous: prefer standard library (no dot in first path element)
				if strings.Contains(strings.Split(found.Path(), "/")[0], ".") {
					found = p.Pkg
				}
				continue
			}
			found = p.Pkg
		}
	}
	return found
}

func (w *World) signatureOf(full string) *types.Signature {
	if fn, ok := w.Funcs[full]; ok {
		return fn.Signature
	}
	// external: path.Name or (path.T).Name
	if strings.HasPrefix(full, "(") {
		// interface or method: (pkg.T).M
		i := strings.Index(full, ").")
		if i < 0 {
			return nil
		}
		tn := strings.TrimPrefix(full[1:i], "*")
		m := full[i+2:]
		j := strings.LastIndex(tn, ".")
		if j < 0 {
			return nil
		}
		p := w.pkgByPath(tn[:j])
		if p == nil {
			return nil
		}
		obj := p.Scope().Lookup(tn[j+1:])
		if obj == nil {
			return nil
		}
		o, _, _ := types.LookupFieldOrMethod(obj.Type(), true, p, m)
		if f, ok := o.(*types.Func); ok {
			return f.Type().(*types.Signature)
		}
		return nil
	}
	j := strings.LastIndex(full, ".")
	if j < 0 {
		return nil
	}
	p := w.pkgByPath(full[:j])
	if p == nil {
		return nil
	}
	if f, ok := p.Scope().Lookup(full[j+1:]).(*types.Func); ok {
		return f.Type().(*types.Signature)
	}
	return nil
}

func (w *World) needVariant(c *Contract) bool {
	for _, p := range c.Props {
		if p == "C17" {
			return true
		}
	}
	return false
}

// lenientFrame: a contract without any modifies clause gets no frame checking.
func (w *World) lenientFrame(c *Contract) bool { return true }

func (w *World) isPure(name string) bool {
	for _, p := range w.DB.Pure {
		if strings.HasSuffix(p, "*") {
			if strings.HasPrefix(name, p[:len(p)-1]) {
				return true
			}
		} else if p == name {
			return true
		}
	}
	return false
}
