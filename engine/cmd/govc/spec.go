package main

import (
	"runtime/debug"
	"os"
	"fmt"
	"sort"
	"go/ast"
	"go/constant"
	"go/parser"
	"go/token"
	"go/types"
	"math/big"
	"strconv"
	"strings"

	"golang.org/x/tools/go/ssa"
)

// Env is the environment a spec expression is evaluated in.
type Env struct {
	vc   *VC
	st   *State
	old  *State
	vars map[string]Val
	fn   *ssa.Function // function whose scope resolves free identifiers (nil at call sites: only vars)
	pos  token.Pos     // position used for scope lookup of locals
	pkg  *types.Package
	what string
	inOld bool
	freshBase string // allocation counter that fresh() compares against (call sites: value before the call)
}

func (e *Env) with(st *State) *Env {
	n := *e
	n.st = st
	return &n
}

func (e *Env) bind(name string, v Val) *Env {
	n := *e
	n.vars = make(map[string]Val, len(e.vars)+1)
	for k, x := range e.vars {
		n.vars[k] = x
	}
	n.vars[name] = v
	return &n
}

type SpecError struct{ Msg string }

func (s SpecError) Error() string { return s.Msg }

func specErr(f string, a ...interface{}) SpecError { return SpecError{fmt.Sprintf(f, a...)} }

// splitTop splits s at top-level occurrences of sep (outside parentheses/brackets/quotes).
func splitTop(s, sep string) []string {
	var out []string
	depth := 0
	last := 0
	inStr := false
	for i := 0; i < len(s); i++ {
		c := s[i]
		if inStr {
			if c == '\\' {
				i++
			} else if c == '"' {
				inStr = false
			}
			continue
		}
		switch c {
		case '"':
			inStr = true
		case '(', '[', '{':
			depth++
		case ')', ']', '}':
			depth--
		}
		if depth == 0 && strings.HasPrefix(s[i:], sep) {
			// "==>" must not match inside "<==>"
			if sep == "==>" && i > 0 && s[i-1] == '<' {
				continue
			}
			out = append(out, s[last:i])
			last = i + len(sep)
			i += len(sep) - 1
		}
	}
	out = append(out, s[last:])
	return out
}

// evalBool evaluates a boolean spec formula (with ==> and <==> at top level or inside parentheses).
func (e *Env) evalBool(text string) string {
	v := e.eval(text)
	if v.K != KBool {
		panic(specErr("%s: expected a boolean formula: %s", e.what, text))
	}
	return v.S
}

func (e *Env) eval(text string) Val {
	text = strings.TrimSpace(text)
	if parts := splitTop(text, "<==>"); len(parts) > 1 {
		if len(parts) != 2 {
			panic(specErr("chained <==>"))
		}
		a, b := e.evalBool(parts[0]), e.evalBool(parts[1])
		return BoolV(Eq(a, b))
	}
	if parts := splitTop(text, "==>"); len(parts) > 1 {
		// right associative
		r := e.evalBool(parts[len(parts)-1])
		for i := len(parts) - 2; i >= 0; i-- {
			r = Imp(e.evalBool(parts[i]), r)
		}
		return BoolV(r)
	}
	// rewrite parenthesised implications: handled by recursive descent on call arguments via evalArgText
	x, err := parser.ParseExpr(rewriteImplications(text))
	if err != nil {
		panic(specErr("%s: cannot parse %q: %v", e.what, text, err))
	}
	return e.expr(x)
}

// rewriteImplications turns "A ==> B" inside parentheses into implies(A, B) so the Go parser accepts it.
func rewriteImplications(s string) string {
	if !strings.Contains(s, "==>") {
		return s
	}
	// process innermost parenthesised groups first
	var out strings.Builder
	i := 0
	for i < len(s) {
		if s[i] == '(' {
			// find matching paren
			d := 0
			j := i
			for ; j < len(s); j++ {
				if s[j] == '(' {
					d++
				} else if s[j] == ')' {
					d--
					if d == 0 {
						break
					}
				}
			}
			inner := s[i+1 : j]
			// split arguments at top-level commas, rewrite each
			args := splitTop(inner, ",")
			for k, a := range args {
				args[k] = rewriteOne(a)
			}
			out.WriteByte('(')
			out.WriteString(strings.Join(args, ","))
			out.WriteByte(')')
			i = j + 1
			continue
		}
		out.WriteByte(s[i])
		i++
	}
	return out.String()
}

func rewriteOne(a string) string {
	if parts := splitTop(a, "<==>"); len(parts) == 2 {
		return "iff(" + rewriteOne(parts[0]) + "," + rewriteOne(parts[1]) + ")"
	}
	parts := splitTop(a, "==>")
	if len(parts) == 1 {
		return rewriteImplications(a)
	}
	r := rewriteImplications(parts[len(parts)-1])
	for i := len(parts) - 2; i >= 0; i-- {
		r = "implies(" + rewriteImplications(parts[i]) + "," + r + ")"
	}
	return r
}

func (e *Env) isStr(v Val) bool {
	return v.K == KInt && (v.Str || (v.T != nil && isString(v.T)))
}

func (e *Env) lenOf(v Val) string {
	switch {
	case v.K == KSlice:
		return v.Len
	case e.isStr(v):
		e.vc.needStr()
		return app("slen", v.S)
	case v.K == KInt && v.T != nil:
		if arr, ok := isArrayT(derefType(v.T)); ok {
			return numI(arr.Len())
		}
		if arr, ok := isArrayT(v.T); ok {
			return numI(arr.Len())
		}
		if mt, ok := v.T.Underlying().(*types.Map); ok {
			// len of a map: the same term the code's len(m) gets (mapcard of its key set; 0 for nil)
			vc := e.vc
			dom, _, _ := vc.mapHeap(mt)
			d := vc.heapGet(e.st, dom, "(Array Int (Array Int Bool))")
			vc.declareFun("mapcard", []string{"(Array Int Bool)"}, "Int")
			vc.axiom("mapcard", "(forall ((s (Array Int Bool)) (k Int)) (! (and (>= (mapcard s) 0) (=> (= (mapcard s) 0) (not (select s k)))) :pattern ((mapcard s) (select s k))))")
			vc.axiom("mapcard2", "(forall ((s (Array Int Bool)) (k Int)) (! (> (mapcard (store s k true)) 0) :pattern ((mapcard (store s k true)))))")
			return Ite(Eq(v.S, "0"), "0", app("mapcard", Sel(d, v.S)))
		}
	}
	panic(specErr("%s: len of a value that is neither slice nor string", e.what))
}

func (e *Env) elemType(v Val) types.Type {
	if v.T == nil {
		return types.Typ[types.Uint8]
	}
	switch u := v.T.Underlying().(type) {
	case *types.Slice:
		return u.Elem()
	case *types.Array:
		return u.Elem()
	case *types.Pointer:
		if a, ok := u.Elem().Underlying().(*types.Array); ok {
			return a.Elem()
		}
	}
	return types.Typ[types.Uint8]
}

func (e *Env) index(v Val, i string) Val {
	vc := e.vc
	switch {
	case v.K == KSlice:
		et := e.elemType(v)
		r := vc.load(e.st, &Addr{Kind: AElem, Reg: v.Reg, Idx: Add(v.Off, i), Root: et, T: et})
		if b, ok := et.Underlying().(*types.Basic); ok && b.Kind() == types.Uint8 && r.K == KInt {
			// spec-level byte reads are clamped to 0..255: identical on every real state (the byte heap only ever holds bytes),
			// and specs then need no range hypotheses
			vc.needClamp()
			r.S = app("bclamp", r.S)
		}
		return r
	case e.isStr(v):
		vc.needStr()
		return IntV(app("sbyte", v.S, i), types.Typ[types.Uint8])
	case v.K == KInt && v.T != nil:
		if _, ok := isArrayT(derefType(v.T)); ok {
			et := e.elemType(v)
			return vc.load(e.st, &Addr{Kind: AElem, Reg: v.S, Idx: i, Root: et, T: et})
		}
		if mt, ok := v.T.Underlying().(*types.Map); ok {
			// spec-level lookup: a pure term (no auxiliary definitions, it may stand under a quantifier)
			dom, vals, sorts := vc.mapHeap(mt)
			present := And(Ne(v.S, "0"), Sel(Sel(vc.heapGet(e.st, dom, "(Array Int (Array Int Bool))"), v.S), i))
			z := zeroVal(mt.Elem()).comps()
			cs := make([]string, len(vals))
			for ci, n := range vals {
				cs[ci] = Ite(present, Sel(Sel(vc.heapGet(e.st, n, arr2Sort(sorts[ci])), v.S), i), z[ci])
			}
			r, _ := rebuild(mt.Elem(), cs)
			return r
		}
	}
	panic(specErr("%s: cannot index this value", e.what))
}

func (e *Env) field(v Val, name string) Val {
	vc := e.vc
	if v.K == KStruct {
		st := v.T.Underlying().(*types.Struct)
		for i := 0; i < st.NumFields(); i++ {
			if st.Field(i).Name() == name {
				return v.Fs[i]
			}
		}
		panic(specErr("%s: no field %s", e.what, name))
	}
	if v.K == KInt && v.T != nil {
		et := derefType(v.T)
		if st, ok := et.Underlying().(*types.Struct); ok {
			for i := 0; i < st.NumFields(); i++ {
				if st.Field(i).Name() == name {
					return vc.load(e.st, &Addr{Kind: AField, Obj: v.S, Root: et, Path: []int{i}, T: st.Field(i).Type()})
				}
			}
		}
	}
	if v.K == KAddr {
		return e.field(vc.load(e.st, v.A), name)
	}
	panic(specErr("%s: cannot select field %s (type %v)", e.what, name, v.T))
}

func (e *Env) lookupLocal(name string) (Val, bool) {
	if e.fn == nil {
		return Val{}, false
	}
	vc := e.vc
	var cands []*ssa.Alloc
	collect := func(fn *ssa.Function) {
		for _, b := range fn.Blocks {
			for _, in := range b.Instrs {
				if a, ok := in.(*ssa.Alloc); ok && a.Comment == name {
					cands = append(cands, a)
				}
			}
		}
	}
	collect(e.fn)
	if os.Getenv("GOVC_DEBUGID") == name {
		fmt.Fprintf(os.Stderr, "lookupLocal %s: %d candidates in %s\n", name, len(cands), e.fn.Name())
	}
	if len(cands) == 0 {
		return Val{}, false
	}
	pick := cands[0]
	if len(cands) > 1 {
		// scope lookup at the position of interest
		var obj types.Object
		if pkg := e.fn.Pkg; pkg != nil && e.pos.IsValid() {
			if sc := pkg.Pkg.Scope().Innermost(e.pos); sc != nil {
				_, obj = sc.LookupParent(name, e.pos)
			}
		}
		found := false
		if obj != nil {
			for _, c := range cands {
				if c.Pos() == obj.Pos() {
					pick = c
					found = true
				}
			}
		}
		if !found {
			panic(specErr("%s: identifier %s is ambiguous (%d locals of that name); rename or use a let", e.what, name, len(cands)))
		}
	}
	av, ok := vc.vals[pick]
	if os.Getenv("GOVC_DEBUGID") == name {
		_, has := e.st.locals[pick]
		fmt.Fprintf(os.Stderr, "  vals ok=%v kind=%v locals has=%v what=%s\n", ok, av.K, has, e.what)
		if !has {
			debug.PrintStack()
		}
	}
	if !ok {
		return Val{}, false
	}
	if av.K == KAddr {
		if av.A.Kind == ALocal {
			if _, has := e.st.locals[pick]; !has {
				return Val{}, false
			}
		}
		return vc.load(e.st, av.A), true
	}
	// struct/array object: the pointer itself
	if isStructT(derefType(pick.Type())) {
		return vc.load(e.st, vc.addrOf(e.st, av, pick.Type())), true
	}
	return av, true
}

func (e *Env) ident(name string) Val {
	vc := e.vc
	if v, ok := e.vars[name]; ok {
		return v
	}
	switch name {
	case "true":
		return BoolV(T)
	case "false":
		return BoolV(F)
	case "nil":
		return IntV("0", nil)
	case "allocated":
		return IntV(vc.heapGet(e.st, "G_allocated", "Int"), types.Typ[types.Int])
	}
	if v, ok := vc.lets[name]; ok {
		return v
	}
	if e.inOld {
		if v, ok := vc.params[name]; ok && v.K != KAddr {
			return v
		}
	}
	// variables captured by reference (closures under contract): the current content of the captured cell
	if v, ok := vc.params[name]; ok && v.K == KAddr && v.A.Kind == ABox {
		return vc.load(e.st, v.A)
	}
	if v, ok := e.lookupLocal(name); ok {
		return v
	}
	if d, ok := vc.W.DB.Defs[name]; ok {
		switch d.Kind {
		case "ghostvar":
			sort := specSort(d.Sorts[0])
			return Val{K: KInt, S: vc.heapGet(e.st, "G_"+name, sort), T: nil}
		case "const":
			vc.declare("c_"+name, specSort(d.Sorts[0]))
			if specSort(d.Sorts[0]) == "Bool" {
				return BoolV("c_" + name)
			}
			return IntV("c_"+name, nil)
		case "define":
			if len(d.Params) == 0 {
				return e.eval(d.Text)
			}
		}
	}
	// package-level constants and sentinel errors of the function's package
	if e.pkg != nil {
		if obj := e.pkg.Scope().Lookup(name); obj != nil {
			if v, ok := e.pkgObject(obj); ok {
				return v
			}
		}
	}
	panic(specErr("%s: unknown identifier %s", e.what, name))
}

func (e *Env) pkgObject(obj types.Object) (Val, bool) {
	vc := e.vc
	switch o := obj.(type) {
	case *types.Const:
		switch o.Val().Kind() {
		case constant.Int:
			n, _ := new(big.Int).SetString(o.Val().ExactString(), 10)
			return IntV(num(n), o.Type()), true
		case constant.Bool:
			if constant.BoolVal(o.Val()) {
				return BoolV(T), true
			}
			return BoolV(F), true
		case constant.String:
			v := IntV(vc.strLit(constant.StringVal(o.Val())), types.Typ[types.String])
			return v, true
		}
	case *types.Var:
		if isErrorType(o.Type()) {
			return IntV(vc.errConst(o.Pkg().Path()+"."+o.Name()), o.Type()), true
		}
		// other package-level variables: a cell of the global pseudo object
		name := "G_" + sanitize(o.Pkg().Path()+"."+o.Name())
		a := &Addr{Kind: ABox, Obj: vc.globalID(name), Root: o.Type(), T: o.Type()}
		return vc.load(e.st, a), true
	}
	return Val{}, false
}

func specSort(s string) string {
	switch strings.TrimSpace(s) {
	case "Int":
		return "Int"
	case "Bool":
		return "Bool"
	case "Arr":
		return "(Array Int Int)"
	case "Set":
		return "(Array Int Bool)"
	case "Map":
		return "(Array Int Int)"
	case "Set2":
		return "(Array Int (Array Int Bool))"
	case "Map2":
		return "(Array Int (Array Int Int))"
	}
	return s
}

func (e *Env) selector(x *ast.SelectorExpr) Val {
	vc := e.vc
	if id, ok := x.X.(*ast.Ident); ok {
		if _, bound := e.vars[id.Name]; !bound {
			if _, isLocal := e.lookupLocalSafe(id.Name); !isLocal {
				// package qualifier?
				if p := vc.W.pkgByName(id.Name, e.pkg); p != nil {
					obj := p.Scope().Lookup(x.Sel.Name)
					if obj == nil {
						panic(specErr("%s: %s.%s not found", e.what, id.Name, x.Sel.Name))
					}
					if v, ok := e.pkgObject(obj); ok {
						return v
					}
					panic(specErr("%s: cannot use %s.%s in a spec", e.what, id.Name, x.Sel.Name))
				}
			}
		}
	}
	base := e.expr(x.X)
	return e.field(base, x.Sel.Name)
}

func (e *Env) lookupLocalSafe(name string) (v Val, ok bool) {
	defer func() {
		if r := recover(); r != nil {
			if _, is := r.(SpecError); is {
				ok = true // ambiguous: still a local
				return
			}
			panic(r)
		}
	}()
	return e.lookupLocal(name)
}

func (e *Env) expr(x ast.Expr) Val {
	vc := e.vc
	switch n := x.(type) {
	case *ast.ParenExpr:
		return e.expr(n.X)
	case *ast.BasicLit:
		switch n.Kind {
		case token.INT:
			v, ok := new(big.Int).SetString(n.Value, 0)
			if !ok {
				panic(specErr("bad integer %s", n.Value))
			}
			return IntV(num(v), nil)
		case token.STRING:
			s, err := strconv.Unquote(n.Value)
			if err != nil {
				panic(specErr("bad string %s", n.Value))
			}
			v := IntV(vc.strLit(s), types.Typ[types.String])
			return v
		case token.CHAR:
			s, _ := strconv.Unquote(n.Value)
			return IntV(numI(int64([]rune(s)[0])), nil)
		}
	case *ast.Ident:
		return e.ident(n.Name)
	case *ast.SelectorExpr:
		return e.selector(n)
	case *ast.StarExpr:
		p := e.expr(n.X)
		if p.K == KAddr {
			return vc.load(e.st, p.A)
		}
		return vc.load(e.st, vc.addrOf(e.st, p, p.T))
	case *ast.IndexExpr:
		b := e.expr(n.X)
		i := e.expr(n.Index)
		return e.index(b, i.S)
	case *ast.SliceExpr:
		b := e.expr(n.X)
		lo := "0"
		if n.Low != nil {
			lo = e.expr(n.Low).S
		}
		if e.isStr(b) {
			hi := app("slen", b.S)
			if n.High != nil {
				hi = e.expr(n.High).S
			}
			r := IntV(vc.substr(e.st, b.S, lo, hi), types.Typ[types.String])
			return r
		}
		if b.K == KInt && b.T != nil {
			if arr, ok := isArrayT(derefType(b.T)); ok {
				b = SliceV(b.S, "0", numI(arr.Len()), numI(arr.Len()), types.NewSlice(arr.Elem()))
			}
		}
		if b.K != KSlice {
			panic(specErr("%s: slicing a non-slice", e.what))
		}
		hi := b.Len
		if n.High != nil {
			hi = e.expr(n.High).S
		}
		return SliceV(b.Reg, Add(b.Off, lo), Sub(hi, lo), Sub(b.Cap, lo), b.T)
	case *ast.UnaryExpr:
		v := e.expr(n.X)
		switch n.Op {
		case token.NOT:
			return BoolV(Not(v.S))
		case token.SUB:
			return IntV(Sub("0", v.S), v.T)
		case token.AND:
			return v
		}
	case *ast.BinaryExpr:
		return e.binary(n)
	case *ast.CallExpr:
		return e.callExpr(n)
	}
	panic(specErr("%s: unsupported spec expression %T", e.what, x))
}

func (e *Env) binary(n *ast.BinaryExpr) Val {
	vc := e.vc
	a := e.expr(n.X)
	b := e.expr(n.Y)
	switch n.Op {
	case token.LAND:
		return BoolV(And(a.S, b.S))
	case token.LOR:
		return BoolV(Or(a.S, b.S))
	case token.EQL, token.NEQ:
		var eq string
		switch {
		case a.K == KSlice && b.K == KSlice:
			eq = And(Eq(a.Reg, b.Reg), Eq(a.Off, b.Off), Eq(a.Len, b.Len), Eq(a.Cap, b.Cap))
		case a.K == KSlice && b.K == KInt && b.S == "0":
			eq = Eq(a.Reg, "0")
		case b.K == KSlice && a.K == KInt && a.S == "0":
			eq = Eq(b.Reg, "0")
		case a.K == KStruct || a.K == KTuple:
			ca, cb := a.comps(), b.comps()
			var es []string
			for i := range ca {
				es = append(es, Eq(ca[i], cb[i]))
			}
			eq = And(es...)
		case a.K == KAddr && b.K == KInt:
			eq = F
		default:
			eq = Eq(a.S, b.S)
		}
		if n.Op == token.NEQ {
			eq = Not(eq)
		}
		return BoolV(eq)
	}
	if e.isStr(a) && e.isStr(b) {
		switch n.Op {
		case token.LSS:
			return BoolV(vc.strLess(a.S, b.S))
		case token.GTR:
			return BoolV(vc.strLess(b.S, a.S))
		case token.LEQ:
			return BoolV(Not(vc.strLess(b.S, a.S)))
		case token.GEQ:
			return BoolV(Not(vc.strLess(a.S, b.S)))
		case token.ADD:
			r := IntV(vc.strConcat(e.st, a.S, b.S), types.Typ[types.String])
			return r
		}
	}
	t := a.T
	if t == nil {
		t = b.T
	}
	switch n.Op {
	case token.LSS:
		return BoolV(Lt(a.S, b.S))
	case token.LEQ:
		return BoolV(Le(a.S, b.S))
	case token.GTR:
		return BoolV(Gt(a.S, b.S))
	case token.GEQ:
		return BoolV(Ge(a.S, b.S))
	case token.ADD: // spec arithmetic is mathematical
		return IntV(Add(a.S, b.S), nil)
	case token.SUB:
		return IntV(Sub(a.S, b.S), nil)
	case token.MUL:
		return IntV(Mul(a.S, b.S), nil)
	case token.QUO:
		return IntV(Div(a.S, b.S), nil)
	case token.REM:
		return IntV(Mod(a.S, b.S), nil)
	}
	panic(specErr("%s: unsupported operator %s", e.what, n.Op))
}

// pickPattern chooses triggers for a quantified body: applications of uninterpreted symbols or select
// that contain the bound variable, preferring those where the variable is not under a multiplication.
// Up to two alternatives are returned (as ":pattern (..) :pattern (..)" content joined by the caller).
func pickPatterns(body, v string) []string {
	type cand struct {
		t     string
		score int
	}
	var cands []cand
	seen := map[string]bool{}
	interpreted := map[string]bool{"and": true, "or": true, "not": true, "=>": true, "=": true, "<": true, "<=": true, ">": true, ">=": true,
		"+": true, "-": true, "*": true, "ite": true, "div": true, "mod": true, "forall": true, "exists": true, "!": true, "let": true, "distinct": true, "store": true}
	var walk func(s string)
	walk = func(s string) {
		for i := 0; i < len(s); i++ {
			if s[i] != '(' {
				continue
			}
			d := 0
			j := i
			for ; j < len(s); j++ {
				if s[j] == '(' {
					d++
				} else if s[j] == ')' {
					d--
					if d == 0 {
						break
					}
				}
			}
			sub := s[i : j+1]
			head := sub[1:]
			if k := strings.IndexAny(head, " )"); k >= 0 {
				head = head[:k]
			}
			if !interpreted[head] && !strings.HasPrefix(head, "(") && containsSym(sub, v) && !seen[sub] && !strings.Contains(sub, "forall") && !hasOtherBound(sub, v) {
				seen[sub] = true
				sc := len(sub)
				if strings.Contains(sub, "(* ") || strings.Contains(sub, "(div ") || strings.Contains(sub, "(mod ") {
					sc += 10000
				}
				if head == "select" {
					sc -= 20
				}
				// nested candidates: prefer the innermost application that still contains the variable
				cands = append(cands, cand{sub, sc})
			}
			if len(sub) > 2 {
				walk(sub[1 : len(sub)-1])
			}
			i = j
		}
	}
	walk(body)
	// drop candidates that contain another candidate (keep minimal ones)
	var mins []cand
	for _, c := range cands {
		minimal := true
		for _, o := range cands {
			if o.t != c.t && strings.Contains(c.t, o.t) {
				minimal = false
				break
			}
		}
		if minimal {
			mins = append(mins, c)
		}
	}
	sort.Slice(mins, func(a, b int) bool { return mins[a].score < mins[b].score })
	var out []string
	for _, c := range mins {
		if len(out) >= 2 {
			break
		}
		if c.score >= 10000 && len(out) > 0 {
			break
		}
		out = append(out, c.t)
	}
	return out
}

// pickPatternsN: triggers for a quantifier over several variables: a single application containing all of them when there
// is one, otherwise a multi-pattern made of one application per variable.
func pickPatternsN(body string, vs []string) []string {
	interpreted := map[string]bool{"and": true, "or": true, "not": true, "=>": true, "=": true, "<": true, "<=": true, ">": true, ">=": true,
		"+": true, "-": true, "*": true, "ite": true, "div": true, "mod": true, "forall": true, "exists": true, "!": true, "store": true}
	var apps []string
	seen := map[string]bool{}
	var walk func(s string)
	walk = func(s string) {
		for i := 0; i < len(s); i++ {
			if s[i] != '(' {
				continue
			}
			d := 0
			j := i
			for ; j < len(s); j++ {
				if s[j] == '(' {
					d++
				} else if s[j] == ')' {
					d--
					if d == 0 {
						break
					}
				}
			}
			sub := s[i : j+1]
			head := sub[1:]
			if k := strings.IndexAny(head, " )"); k >= 0 {
				head = head[:k]
			}
			if !interpreted[head] && !strings.HasPrefix(head, "(") && !seen[sub] && !strings.Contains(sub, "forall") {
				m := map[string]bool{}
				symbols(sub, m)
				ok := false
				for _, v := range vs {
					if m[v] {
						ok = true
					}
				}
				for sy := range m {
					isOwn := false
					for _, v := range vs {
						if sy == v {
							isOwn = true
						}
					}
					if !isOwn && strings.Contains(sy, "!q") {
						ok = false
					}
				}
				if ok {
					seen[sub] = true
					apps = append(apps, sub)
				}
			}
			if len(sub) > 2 {
				walk(sub[1 : len(sub)-1])
			}
			i = j
		}
	}
	walk(body)
	has := func(t, v string) bool { return containsSym(t, v) }
	var all []string
	for _, a := range apps {
		ok := true
		for _, v := range vs {
			if !has(a, v) {
				ok = false
			}
		}
		if ok {
			all = append(all, a)
		}
	}
	if len(all) > 0 {
		// minimal ones, at most two alternatives
		var mins []string
		for _, c := range all {
			minimal := true
			for _, o := range all {
				if o != c && strings.Contains(c, o) {
					minimal = false
				}
			}
			if minimal && len(mins) < 2 {
				mins = append(mins, c)
			}
		}
		return mins
	}
	// multi-pattern: smallest application per variable
	var parts []string
	covered := map[string]bool{}
	for _, v := range vs {
		if covered[v] {
			continue
		}
		best := ""
		for _, a := range apps {
			if has(a, v) && (best == "" || len(a) < len(best)) {
				best = a
			}
		}
		if best == "" {
			return nil
		}
		parts = append(parts, best)
		for _, w := range vs {
			if has(best, w) {
				covered[w] = true
			}
		}
	}
	return []string{strings.Join(parts, " ")}
}

func pickPatterns2(body, a, b string) []string { return pickPatternsN(body, []string{a, b}) }

func pickPattern(body, v string) string {
	ps := pickPatterns(body, v)
	if len(ps) == 0 {
		return ""
	}
	return strings.Join(ps, ") :pattern (")
}

// hasOtherBound: the term mentions a quantified variable other than v (it would be free in a pattern of v's quantifier).
func hasOtherBound(term, v string) bool {
	m := map[string]bool{}
	symbols(term, m)
	for s := range m {
		if s != v && strings.Contains(s, "!q") {
			return true
		}
	}
	return false
}

func containsSym(term, sym string) bool {
	m := map[string]bool{}
	symbols(term, m)
	return m[sym]
}

func (e *Env) quant(kind string, n *ast.CallExpr) Val {
	vc := e.vc
	if len(n.Args) != 4 && len(n.Args) != 2 {
		panic(specErr("%s: %s(i, lo, hi, body) or %s(i, body)", e.what, kind, kind))
	}
	id, ok := n.Args[0].(*ast.Ident)
	if !ok {
		panic(specErr("%s: first argument of %s must be an identifier", e.what, kind))
	}
	vc.n++
	bv := fmt.Sprintf("%s!q%d", id.Name, vc.n)
	inner := e.bind(id.Name, IntV(bv, nil))
	var guard string = T
	var bodyX ast.Expr
	if len(n.Args) == 4 {
		lo := e.expr(n.Args[1]).S
		hi := e.expr(n.Args[2]).S
		guard = And(Le(lo, bv), Lt(bv, hi))
		bodyX = n.Args[3]
	} else {
		bodyX = n.Args[1]
	}
	saved := vc.specQuant
	vc.specQuant = true
	body := inner.expr(bodyX)
	vc.specQuant = saved
	if body.K != KBool {
		panic(specErr("%s: quantifier body is not boolean", e.what))
	}
	var f string
	if kind == "forall" {
		f = Imp(guard, body.S)
	} else {
		f = And(guard, body.S)
	}
	if f == T || f == F {
		return BoolV(f)
	}
	pat := pickPattern(body.S, bv)
	var full string
	if pat != "" {
		full = fmt.Sprintf("(%s ((%s Int)) (! %s :pattern (%s)))", kind, bv, f, pat)
	} else {
		full = fmt.Sprintf("(%s ((%s Int)) %s)", kind, bv, f)
	}
	if kind == "forall" {
		vc.quants = append(vc.quants, &quantRec{BV: bv, Text: full, Inner: f})
	} else {
		vc.exQuants = append(vc.exQuants, &quantRec{BV: bv, Text: full, Inner: f})
	}
	return BoolV(full)
}

func (vc *VC) needClamp() {
	if vc.declSet["bclamp"] {
		return
	}
	vc.declSet["bclamp"] = true
	vc.macros = append(vc.macros, "(define-fun bclamp ((x Int)) Int (ite (and (<= 0 x) (<= x 255)) x 0))")
}

func (vc *VC) needSid() {
	sorts := make([]string, 16)
	for k := range sorts {
		sorts[k] = "Int"
	}
	vc.declareFun("sum16", sorts, "Int")
	if vc.axiomSet["sum16_inj"] {
		return
	}
	vc.axiomSet["sum16_inj"] = true
	vars := ""
	args := ""
	for k := 0; k < 16; k++ {
		vars += fmt.Sprintf("(b%d Int) ", k)
		args += fmt.Sprintf(" b%d", k)
	}
	var inv []string
	for k := 0; k < 16; k++ {
		vc.declareFun(fmt.Sprintf("sum16_inv%d", k), []string{"Int"}, "Int")
		inv = append(inv, fmt.Sprintf("(= (sum16_inv%d (sum16%s)) b%d)", k, args, k))
	}
	vc.addAssert(fmt.Sprintf("(forall (%s) (! (and (> (sum16%s) 0) %s) :pattern ((sum16%s))))", strings.TrimSpace(vars), args, strings.Join(inv, " "), args))
	var sel []string
	for k := 0; k < 16; k++ {
		sel = append(sel, fmt.Sprintf("(select (select E r) (+ o %d))", k))
	}
	vc.macros = append(vc.macros, "(define-fun sid16 ((E (Array Int (Array Int Int))) (r Int) (o Int)) Int (sum16 "+strings.Join(sel, " ")+"))")
	vc.declSet["sid16"] = true
}

// needSidc: sidc16 is sid16 over clamped bytes (the same number on every real state, where the byte heap only holds bytes);
// it lets byte-wise equalities stated through spec-level (clamped) reads conclude equal identities.
func (vc *VC) needSidc() {
	vc.needSid()
	vc.needClamp()
	if vc.declSet["sidc16"] {
		return
	}
	var sel []string
	for k := 0; k < 16; k++ {
		sel = append(sel, fmt.Sprintf("(bclamp (select (select E r) (+ o %d)))", k))
	}
	vc.macros = append(vc.macros, "(define-fun sidc16 ((E (Array Int (Array Int Int))) (r Int) (o Int)) Int (sum16 "+strings.Join(sel, " ")+"))")
	vc.declSet["sidc16"] = true
}

// quantRec remembers a universally quantified spec formula so that emit() can add ground instances of it.
type quantRec struct {
	BV    string   // first bound variable
	More  []string // further bound variables (forall2 / forall3)
	Text  string
	Inner string
}

func (q *quantRec) vars() []string { return append([]string{q.BV}, q.More...) }

// substSym replaces every occurrence of symbol sym in term by repl.
func substSym(term, sym, repl string) string {
	var b strings.Builder
	i := 0
	n := len(term)
	for i < n {
		c := term[i]
		if c == '(' || c == ')' || c == ' ' {
			b.WriteByte(c)
			i++
			continue
		}
		j := i
		for j < n && term[j] != '(' && term[j] != ')' && term[j] != ' ' {
			j++
		}
		tok := term[i:j]
		if tok == sym {
			b.WriteString(repl)
		} else {
			b.WriteString(tok)
		}
		i = j
	}
	return b.String()
}

func (e *Env) beRead(b Val, off string, n int) string {
	// big-endian unsigned integer of n bytes at b[off:]
	t := "0"
	for i := 0; i < n; i++ {
		byt := e.index(b, Add(off, numI(int64(i)))).S
		t = Add(Mul(t, "256"), byt)
	}
	return t
}

func (e *Env) callExpr(n *ast.CallExpr) Val {
	vc := e.vc
	var fname string
	switch f := n.Fun.(type) {
	case *ast.Ident:
		fname = f.Name
	case *ast.SelectorExpr:
		if id, ok := f.X.(*ast.Ident); ok {
			fname = id.Name + "." + f.Sel.Name
		}
	}
	if fname == "" {
		panic(specErr("%s: unsupported call in spec", e.what))
	}
	arg := func(i int) Val {
		if i >= len(n.Args) {
			panic(specErr("%s: %s: missing argument %d", e.what, fname, i+1))
		}
		return e.expr(n.Args[i])
	}
	switch fname {
	case "len":
		return IntV(e.lenOf(arg(0)), types.Typ[types.Int])
	case "cap":
		return IntV(arg(0).Cap, types.Typ[types.Int])
	case "old":
		if e.old == nil {
			panic(specErr("%s: old() not available here", e.what))
		}
		o := e.with(e.old)
		o.inOld = true
		return o.expr(n.Args[0])
	case "implies":
		return BoolV(Imp(arg(0).S, arg(1).S))
	case "iff":
		return BoolV(Eq(arg(0).S, arg(1).S))
	case "forall", "exists":
		return e.quant(fname, n)
	case "forall2", "forall3":
		// forallN(a, b[, c], body): one quantifier over several integers (better triggers than nesting)
		nv := 2
		if fname == "forall3" {
			nv = 3
		}
		if len(n.Args) != nv+1 {
			panic(specErr("%s: %s needs %d variables and a body", e.what, fname, nv))
		}
		inner := e
		var vs []string
		for k := 0; k < nv; k++ {
			id, ok := n.Args[k].(*ast.Ident)
			if !ok {
				panic(specErr("%s: %s needs identifiers", e.what, fname))
			}
			vc.n++
			v := fmt.Sprintf("%s!q%d", id.Name, vc.n)
			vs = append(vs, v)
			inner = inner.bind(id.Name, IntV(v, nil))
		}
		body := inner.expr(n.Args[nv])
		if body.K != KBool {
			panic(specErr("%s: quantifier body is not boolean", e.what))
		}
		decl := ""
		for _, v := range vs {
			decl += "(" + v + " Int) "
		}
		pat := ""
		for _, c := range pickPatternsN(body.S, vs) {
			pat += " :pattern (" + c + ")"
		}
		var full string
		if pat != "" {
			full = fmt.Sprintf("(forall (%s) (! %s%s))", strings.TrimSpace(decl), body.S, pat)
		} else {
			full = fmt.Sprintf("(forall (%s) %s)", strings.TrimSpace(decl), body.S)
		}
		vc.quants = append(vc.quants, &quantRec{BV: vs[0], More: vs[1:], Text: full, Inner: body.S})
		return BoolV(full)
	case "ite":
		c, a, b := arg(0), arg(1), arg(2)
		if a.K == KBool {
			return BoolV(Ite(c.S, a.S, b.S))
		}
		r := a
		r.S = Ite(c.S, a.S, b.S)
		return r
	case "min":
		a, b := arg(0), arg(1)
		return IntV(Ite(Le(a.S, b.S), a.S, b.S), nil)
	case "max":
		a, b := arg(0), arg(1)
		return IntV(Ite(Ge(a.S, b.S), a.S, b.S), nil)
	case "be16":
		return IntV(e.beRead(arg(0), arg(1).S, 2), nil)
	case "be32":
		return IntV(e.beRead(arg(0), arg(1).S, 4), nil)
	case "be64":
		return IntV(e.beRead(arg(0), arg(1).S, 8), nil)
	case "bytesAt":
		// bytesAt(b, off, s): b[off+i] == s[i] for all i < len(s)
		b, off, s := arg(0), arg(1).S, arg(2)
		vc.n++
		bv := fmt.Sprintf("k!q%d", vc.n)
		lhs := e.index(b, Add(off, bv)).S
		rhs := e.index(s, bv).S
		f := Imp(And(Le("0", bv), Lt(bv, e.lenOf(s))), Eq(lhs, rhs))
		pat := pickPattern(rhs, bv)
		if pat == "" {
			pat = pickPattern(lhs, bv)
		}
		full := fmt.Sprintf("(forall ((%s Int)) (! %s :pattern (%s)))", bv, f, pat)
		vc.quants = append(vc.quants, &quantRec{BV: bv, Text: full, Inner: f})
		return BoolV(full)
	case "bytesEq":
		a, b := arg(0), arg(1)
		vc.n++
		bv := fmt.Sprintf("k!q%d", vc.n)
		lhs := e.index(a, bv).S
		rhs := e.index(b, bv).S
		f := Imp(And(Le("0", bv), Lt(bv, e.lenOf(a))), Eq(lhs, rhs))
		pat := pickPattern(lhs, bv)
		full := fmt.Sprintf("(forall ((%s Int)) (! %s :pattern (%s)))", bv, f, pat)
		vc.quants = append(vc.quants, &quantRec{BV: bv, Text: full, Inner: f})
		return BoolV(And(Eq(e.lenOf(a), e.lenOf(b)), full))
	case "sameBytes":
		// sameBytes(x): contents of window x equal to their value in the old state
		cur := arg(0)
		if e.old == nil {
			panic(specErr("%s: sameBytes needs an old state", e.what))
		}
		vc.n++
		bv := fmt.Sprintf("k!q%d", vc.n)
		lhs := e.index(cur, bv).S
		rhs := e.with(e.old).index(cur, bv).S
		f := Imp(And(Le("0", bv), Lt(bv, cur.Len)), Eq(lhs, rhs))
		full := fmt.Sprintf("(forall ((%s Int)) (! %s :pattern (%s)))", bv, f, pickPattern(lhs, bv))
		vc.quants = append(vc.quants, &quantRec{BV: bv, Text: full, Inner: f})
		return BoolV(full)
	case "isErr":
		return BoolV(vc.errIs(arg(0).S, arg(1).S))
	case "fresh":
		v := arg(0)
		base := vc.entryAlloc
		if e.freshBase != "" {
			base = e.freshBase
		}
		if v.K == KSlice {
			return BoolV(Gt(v.Reg, base))
		}
		return BoolV(Gt(v.S, base))
	case "disjoint":
		a, b := arg(0), arg(1)
		return BoolV(Or(Ne(a.Reg, b.Reg), Le(Add(a.Off, a.Cap), b.Off), Le(Add(b.Off, b.Cap), a.Off)))
	case "reg":
		return IntV(arg(0).Reg, nil)
	case "off":
		return IntV(arg(0).Off, nil)
	case "pos":
		return IntV(Sel(vc.heapGet(e.st, "G_pos", "(Array Int Int)"), arg(0).S), nil)
	case "consumed":
		r := arg(0)
		cur := Sel(vc.heapGet(e.st, "G_pos", "(Array Int Int)"), r.S)
		old := Sel(vc.heapGet(e.oldOr(), "G_pos", "(Array Int Int)"), r.S)
		return IntV(Sub(cur, old), nil)
	case "contents":
		v := arg(0)
		et := e.elemType(v)
		names, sorts := elemHeapNames(et)
		if len(names) != 1 {
			panic(specErr("%s: contents() of a slice with composite elements", e.what))
		}
		reg := v.Reg
		if v.K != KSlice {
			reg = v.S
		}
		return Val{K: KInt, S: Sel(vc.heapGet(e.st, names[0], arr2Sort(sorts[0])), reg)}
	case "sid", "sidc":
		// identity of a 16-byte checksum held in a byte slice: the 128-bit number its bytes spell (injective, no axioms needed)
		v := arg(0)
		if v.K == KInt && v.T != nil {
			if arr, ok := isArrayT(derefType(v.T)); ok {
				v = SliceV(v.S, "0", numI(arr.Len()), numI(arr.Len()), types.NewSlice(arr.Elem()))
			}
		}
		if v.K != KSlice {
			panic(specErr("%s: sid() needs a byte slice", e.what))
		}
		h := vc.heapGet(e.st, byteHeap, arr2Sort("Int"))
		// identity = an injective function of the 16 bytes (injectivity through inverse functions); sid16 is a macro over
		// (byte heap, region, offset) so that the 16 selects are not spelled out at every occurrence
		vc.needSid()
		t := app("sid16", h, v.Reg, v.Off)
		if fname == "sidc" {
			vc.needSidc()
			t = app("sidc16", h, v.Reg, v.Off)
		}
		if !strings.Contains(t, "!q") {
			t = vc.forceName("sid", "Int", t)
		}
		return IntV(t, nil)
	case "hashid":
		// abstract identity of the checksum of a byte string (a function of its bytes and length)
		v := arg(0)
		vc.declareFun("hashid", []string{"(Array Int Int)", "Int", "Int"}, "Int")
		vc.axiom("hashid_pos", "(forall ((a (Array Int Int)) (o Int) (n Int)) (! (> (hashid a o n) 0) :pattern ((hashid a o n))))")
		return IntV(app("hashid", Sel(vc.heapGet(e.st, byteHeap, arr2Sort("Int")), v.Reg), v.Off, v.Len), nil)
	case "closureLemma":
		// instance of lemma L1 (checked in Lean, /verif/lemmas/L1.lean) for the concrete set S and commit c:
		// if S contains c and is closed under parents, S contains every ancestor-or-self of c.
		S, c := arg(0).S, arg(1).S
		vc.declareFun("u_anc", []string{"Int", "Int"}, "Bool")
		vc.declareFun("u_nparents", []string{"Int"}, "Int")
		vc.declareFun("u_parentOf", []string{"Int", "Int"}, "Int")
		closed := fmt.Sprintf("(forall ((y Int) (i Int)) (! (=> (and (select %s y) (<= 0 i) (< i (u_nparents y))) (select %s (u_parentOf y i))) :pattern ((select %s (u_parentOf y i)))))", S, S, S)
		concl := fmt.Sprintf("(forall ((x Int)) (! (=> (u_anc x %s) (select %s x)) :pattern ((u_anc x %s))))", c, S, c)
		return BoolV(Imp(And(Sel(S, c), closed), concl))
	case "cmp3":
		// cmp3(x, y): what bytes.Compare(x, y) returns, as a function of the two byte windows
		x, y := arg(0), arg(1)
		if x.K != KSlice || y.K != KSlice {
			panic(specErr("%s: cmp3 needs two byte slices", e.what))
		}
		h := vc.heapGet(e.st, byteHeap, arr2Sort("Int"))
		return IntV(vc.cmp3(Sel(h, x.Reg), x.Off, x.Len, Sel(h, y.Reg), y.Off, y.Len), nil)
	case "ifaceStr":
		vc.declareFun("ifaceStr", []string{"Int"}, "Int")
		r := IntV(app("ifaceStr", arg(0).S), types.Typ[types.String])
		return r
	case "sumlt":
		// strict total order on checksum ids: the byte-wise (lexicographic) order of the 16 bytes
		return BoolV(vc.sumLess(arg(0).S, arg(1).S))
	case "hasPrefix":
		return BoolV(vc.hasPrefix(arg(0).S, arg(1).S))
	case "domain":
		m := arg(0)
		mt, ok := m.T.Underlying().(*types.Map)
		if !ok {
			panic(specErr("%s: domain() of a non-map", e.what))
		}
		dom, _, _ := vc.mapHeap(mt)
		return Val{K: KInt, S: Sel(vc.heapGet(e.st, dom, "(Array Int (Array Int Bool))"), m.S)}
	case "upd":
		return Val{K: KInt, S: Sto(arg(0).S, arg(1).S, arg(2).S)}
	case "member2":
		return BoolV(Sel(Sel(arg(0).S, arg(1).S), arg(2).S))
	case "add2":
		s0, a, b := arg(0).S, arg(1).S, arg(2).S
		return Val{K: KInt, S: Sto(s0, a, Sto(Sel(s0, a), b, T))}
	case "del2":
		s0, a, b := arg(0).S, arg(1).S, arg(2).S
		return Val{K: KInt, S: Sto(s0, a, Sto(Sel(s0, a), b, F))}
	case "get2":
		return IntV(Sel(Sel(arg(0).S, arg(1).S), arg(2).S), nil)
	case "put2":
		s0, a, b, c := arg(0).S, arg(1).S, arg(2).S, arg(3).S
		return Val{K: KInt, S: Sto(s0, a, Sto(Sel(s0, a), b, c))}
	case "wlen":
		return IntV(Sel(vc.heapGet(e.st, "G_wlen", "(Array Int Int)"), arg(0).S), nil)
	case "wbyte":
		return IntV(Sel(Sel(vc.heapGet(e.st, "G_wdata", "(Array Int (Array Int Int))"), arg(0).S), arg(1).S), nil)
	case "streamClean":
		vc.streamDecls()
		return BoolV(app("streamClean", arg(0).S))
	case "streamLen":
		vc.streamDecls()
		return IntV(app("streamLen", arg(0).S), nil)
	case "streamByte":
		vc.declareFun("streamByte", []string{"Int", "Int"}, "Int")
		return IntV(app("streamByte", arg(0).S, arg(1).S), nil)
	case "int", "int64", "int32", "int16", "int8", "uint", "uint64", "uint32", "uint16", "uint8", "byte":
		v := arg(0)
		tn := fname
		if tn == "byte" {
			tn = "uint8"
		}
		t := types.Universe.Lookup(tn).Type()
		return IntV(wrapInt(v.S, t), t)
	case "mathint":
		return IntV(arg(0).S, nil)
	case "str":
		v := arg(0)
		v.Str = true
		return v
	case "sel":
		return IntV(Sel(arg(0).S, arg(1).S), nil)
	case "member":
		if m := arg(0); m.T != nil {
			if mt, ok := m.T.Underlying().(*types.Map); ok {
				dom, _, _ := vc.mapHeap(mt)
				return BoolV(And(Ne(m.S, "0"), Sel(Sel(vc.heapGet(e.st, dom, "(Array Int (Array Int Bool))"), m.S), arg(1).S)))
			}
		}
		return BoolV(Sel(arg(0).S, arg(1).S))
	}
	if d, ok := vc.W.DB.Defs[fname]; ok {
		switch d.Kind {
		case "opaque":
			// an opaque predicate: an uninterpreted Boolean of what its arguments denote; its definition is available only
			// where a contract says "reveal name(args)" (keeps quantified definitions out of proofs that do not need them)
			if len(d.Params) != len(n.Args) {
				panic(specErr("%s: %s expects %d arguments", e.what, fname, len(d.Params)))
			}
			var args, sorts []string
			for i := range n.Args {
				v := arg(i)
				switch v.K {
				case KSlice:
					et := e.elemType(v)
					names, srt := elemHeapNames(et)
					if len(names) != 1 {
						panic(specErr("%s: opaque %s: slice of composite elements", e.what, fname))
					}
					args = append(args, Sel(vc.heapGet(e.st, names[0], arr2Sort(srt[0])), v.Reg), v.Off, v.Len)
					sorts = append(sorts, arrSort(srt[0]), "Int", "Int")
				case KBool:
					args = append(args, v.S)
					sorts = append(sorts, "Bool")
				default:
					args = append(args, v.S)
					sorts = append(sorts, "Int")
				}
			}
			vc.declareFun("o_"+fname, sorts, "Bool")
			return BoolV(app("o_"+fname, args...))
		case "define":
			if len(d.Params) != len(n.Args) {
				panic(specErr("%s: %s expects %d arguments", e.what, fname, len(d.Params)))
			}
			inner := e
			for i, p := range d.Params {
				inner = inner.bind(p, arg(i))
			}
			in2 := *inner
			in2.what = e.what + " (in " + fname + ")"
			return in2.eval(d.Text)
		case "ufun":
			var args []string
			var sorts []string
			for i := range n.Args {
				args = append(args, arg(i).S)
				sorts = append(sorts, specSort(d.Sorts[i]))
			}
			res := specSort(d.Sorts[len(d.Sorts)-1])
			vc.declareFun("u_"+fname, sorts, res)
			vc.needAxiomsFor(fname)
			if len(args) == 0 {
				if res == "Bool" {
					return BoolV("u_" + fname)
				}
				return IntV("u_"+fname, nil)
			}
			if res == "Bool" {
				return BoolV(app("u_"+fname, args...))
			}
			return IntV(app("u_"+fname, args...), nil)
		}
	}
	if f, ok := vc.localFuns[fname]; ok {
		var args []string
		for i := range n.Args {
			args = append(args, arg(i).S)
		}
		return IntV(app(f, args...), nil)
	}
	panic(specErr("%s: unknown spec function %s", e.what, fname))
}

func (e *Env) oldOr() *State {
	if e.old != nil {
		return e.old
	}
	return e.st
}

func (vc *VC) errIs(e, target string) string {
	vc.declareFun("errIs", []string{"Int", "Int"}, "Bool")
	vc.axiom("errIs_refl", "(forall ((e Int)) (! (=> (not (= e 0)) (errIs e e)) :pattern ((errIs e e))))")
	vc.axiom("errIs_nil", "(forall ((t Int)) (! (=> (not (= t 0)) (not (errIs 0 t))) :pattern ((errIs 0 t))))")
	if !vc.axiomSet["errIs_sentinels"] {
		vc.axiomSet["errIs_sentinels"] = true
		a, b := vc.errConst("io.EOF"), vc.errConst("io.ErrUnexpectedEOF")
		vc.addAssert(And(Not(app("errIs", a, b)), Not(app("errIs", b, a))))
	}
	return app("errIs", e, target)
}

// needAxiomsFor pulls in the axioms that mention a spec function.
func (vc *VC) needAxiomsFor(fname string) {
	for _, ax := range vc.W.DB.Axioms {
		if vc.axiomSet["user:"+ax.Name] {
			continue
		}
		if !strings.Contains(ax.Text, fname+"(") {
			continue
		}
		vc.axiomSet["user:"+ax.Name] = true
		env := &Env{vc: vc, st: vc.entryOrEmpty(), vars: map[string]Val{}, what: "axiom " + ax.Name}
		vc.addAssert(env.evalBool(ax.Text))
	}
}

func (vc *VC) entryOrEmpty() *State {
	if vc.entry != nil {
		return vc.entry
	}
	return &State{pc: T, locals: map[*ssa.Alloc]Val{}, heap: map[string]string{}, alloc: "0"}
}
