package main

import (
	"fmt"
	"sort"
	"go/token"
	"go/types"
	"strings"

	"golang.org/x/tools/go/ssa"
)

func funcKey(fn *ssa.Function) (pkg, key string) {
	if fn.Pkg != nil {
		pkg = fn.Pkg.Pkg.Path()
	} else if fn.Object() != nil && fn.Object().Pkg() != nil {
		pkg = fn.Object().Pkg().Path()
	}
	// RelString gives (*T).Name / T.Name / Name / outer$1 relative to the package
	key = fn.RelString(fn.Package().Pkg)
	return
}

func (w *World) contractFor(fn *ssa.Function) *Contract {
	if fn.Package() == nil {
		// method of an instantiated/external type without package (wrappers)
		if fn.Object() != nil && fn.Object().Pkg() != nil {
			rel := fn.RelString(fn.Object().Pkg())
			return w.DB.ByKey[fn.Object().Pkg().Path()+"."+rel]
		}
		return nil
	}
	pkg, key := funcKey(fn)
	if c, ok := w.DB.ByKey[pkg+"."+key]; ok {
		return c
	}
	// value-receiver methods are written (T).Name in contracts; RelString gives (T).Name too
	return nil
}

func (vc *VC) call(st *State, in ssa.Instruction, c *ssa.CallCommon) Val {
	vc.curCall = c
	var resT types.Type
	if v, ok := in.(ssa.Value); ok {
		resT = v.Type()
	}
	if b, ok := c.Value.(*ssa.Builtin); ok {
		return vc.builtin(st, b, c, resT, in.Pos())
	}
	args := make([]Val, len(c.Args))
	for i, a := range c.Args {
		args[i] = vc.get(st, a)
	}
	if c.IsInvoke() {
		recv := vc.get(st, c.Value)
		name := "(" + c.Value.Type().String() + ")." + c.Method.Name()
		if named, ok := c.Value.Type().(*types.Named); ok && named.Obj().Pkg() != nil {
			name = "(" + named.Obj().Pkg().Path() + "." + named.Obj().Name() + ")." + c.Method.Name()
		} else if isErrorType(c.Value.Type()) {
			name = "(error)." + c.Method.Name()
		}
		vc.nilCheck(st, recv, "method call on nil interface")
		if r, ok := vc.intrinsic(st, name, append([]Val{recv}, args...), c, resT, in.Pos()); ok {
			return r
		}
		// interface embedding: look the method up by its declaring interface as well
		if fn := c.Method; fn != nil {
			if recvT := fn.Type().(*types.Signature).Recv(); recvT != nil {
				if n, ok := recvT.Type().(*types.Named); ok && n.Obj().Pkg() != nil {
					alt := "(" + n.Obj().Pkg().Path() + "." + n.Obj().Name() + ")." + fn.Name()
					if r, ok := vc.intrinsic(st, alt, append([]Val{recv}, args...), c, resT, in.Pos()); ok {
						return r
					}
					if con, ok := vc.W.DB.ByKey[alt]; ok {
						return vc.applyContract(st, con, alt, append([]Val{recv}, args...), methodParamNames(fn, true), resT, in.Pos())
					}
				}
			}
		}
		if con, ok := vc.W.DB.ByKey[name]; ok {
			return vc.applyContract(st, con, name, append([]Val{recv}, args...), methodParamNames(c.Method, true), resT, in.Pos())
		}
		if named, ok := c.Value.Type().(*types.Named); ok && named.Obj().Pkg() != nil {
			alt := named.Obj().Pkg().Path() + ".(" + named.Obj().Name() + ")." + c.Method.Name()
			if con, ok := vc.W.DB.ByKey[alt]; ok {
				return vc.applyContract(st, con, alt, append([]Val{recv}, args...), methodParamNames(c.Method, true), resT, in.Pos())
			}
		}
		return vc.havocCall(st, name, args, resT, true)
	}
	callee := c.StaticCallee()
	if callee == nil {
		// dynamic call of a closure value known statically
		fv := vc.get(st, c.Value)
		if fv.K == KFunc {
			return vc.callFunction(st, fv.Fn, fv.Fr, args, resT, in.Pos())
		}
		if vc.depth == 0 && vc.Con != nil && (len(vc.Con.Of("dyn-modifies")) > 0 || len(vc.Con.Of("dyn-ensures")) > 0) {
			// the contract states what calls through function values may do (an assumption, reported in the evidence)
			pre := st.clone()
			env := vc.funcEnvAt(st, in.Pos())
			env.old = pre
			ms := vc.evalModifies(env, vc.Con.Of("dyn-modifies"))
			vc.havocModSet(st, pre, ms, true)
			al := vc.fresh("alloc", "Int")
			st.assume(vc, Ge(al, st.alloc))
			st.alloc = al
			var res Val = Val{K: KUnit}
			if resT != nil {
				if tup, ok := resT.(*types.Tuple); !ok || tup.Len() > 0 {
					res = vc.freshVal("r_dyn", resT)
					st.assume(vc, vc.valid(st, res))
				}
			}
			env2 := vc.funcEnvAt(st, in.Pos())
			env2.old = pre
			for _, cl := range vc.Con.Of("dyn-ensures") {
				st.assume(vc, vc.specBool(env2, cl))
			}
			var txt []string
			for _, cl := range vc.Con.Of("dyn-modifies") {
				txt = append(txt, "modifies "+cl.Text)
			}
			for _, cl := range vc.Con.Of("dyn-ensures") {
				txt = append(txt, "ensures "+cl.Text)
			}
			vc.note("calls through function values in " + vc.Fn.Name() + " are ASSUMED to satisfy: " + strings.Join(txt, "; "))
			vc.havocked["dynamic call (contract-stated effect)"] = true
			return res
		}
		return vc.havocCall(st, "dynamic call", args, resT, true)
	}
	var free []Val
	if mc, ok := c.Value.(*ssa.MakeClosure); ok {
		fv := vc.get(st, mc)
		free = fv.Fr
	}
	return vc.callFunction(st, callee, free, args, resT, in.Pos())
}

func methodParamNames(fn *types.Func, withRecv bool) []string {
	sig := fn.Type().(*types.Signature)
	var out []string
	if withRecv {
		out = append(out, "self")
	}
	for i := 0; i < sig.Params().Len(); i++ {
		n := sig.Params().At(i).Name()
		if n == "" || n == "_" {
			n = fmt.Sprintf("arg%d", i)
		}
		out = append(out, n)
	}
	return out
}

func fnFullName(fn *ssa.Function) string {
	if fn.Package() != nil {
		pkg, key := funcKey(fn)
		return pkg + "." + key
	}
	if fn.Object() != nil && fn.Object().Pkg() != nil {
		return fn.Object().Pkg().Path() + "." + fn.RelString(fn.Object().Pkg())
	}
	return fn.String()
}

func (vc *VC) callFunction(st *State, callee *ssa.Function, free []Val, args []Val, resT types.Type, pos token.Pos) Val {
	name := fnFullName(callee)
	if callee.Signature.Recv() != nil && len(args) > 0 && args[0].K == KInt {
		if _, isPtr := callee.Signature.Recv().Type().Underlying().(*types.Pointer); isPtr {
			if !isOpaqueNamed(derefType(callee.Signature.Recv().Type())) || true {
				vc.nilCheck(st, args[0], "method call on nil receiver "+name)
			}
		}
	}
	if r, ok := vc.intrinsic(st, name, args, vc.curCall, resT, pos); ok {
		return r
	}
	// an external function taking an interface, specialised by the dynamic type known at the call:
	// "func Sort<*pkg.T>" in a spec file describes sort.Sort on a *pkg.T (the parameter then denotes the *pkg.T)
	if !vc.W.inRepo(callee) {
		for ai, a := range args {
			if a.Dyn == nil {
				continue
			}
			if con, ok := vc.W.DB.ByKey[name+"<"+a.Dyn.String()+">"]; ok {
				args2 := append([]Val(nil), args...)
				args2[ai].T = a.Dyn
				var names []string
				if callee.Signature.Recv() != nil {
					names = append(names, "self")
				}
				for i := 0; i < callee.Signature.Params().Len(); i++ {
					names = append(names, callee.Signature.Params().At(i).Name())
				}
				return vc.applyContract(st, con, name, args2, names, resT, pos)
			}
		}
	}
	if con := vc.W.contractFor(callee); con != nil && !(callee == vc.Fn) {
		var names []string
		for _, p := range callee.Params {
			names = append(names, p.Name())
		}
		return vc.applyContract(st, con, name, args, names, resT, pos)
	}
	if con, ok := vc.W.DB.ByKey[name]; ok && callee != vc.Fn {
		var names []string
		for _, p := range callee.Params {
			names = append(names, p.Name())
		}
		if len(names) == 0 && callee.Signature != nil {
			// external function without body: names from the signature
			if callee.Signature.Recv() != nil {
				names = append(names, "self")
			}
			for i := 0; i < callee.Signature.Params().Len(); i++ {
				names = append(names, callee.Signature.Params().At(i).Name())
			}
		}
		return vc.applyContract(st, con, name, args, names, resT, pos)
	}
	if vc.W.isPure(name) {
		return vc.havocCall(st, name, args, resT, false)
	}
	// inline small in-repo functions without loops
	if callee.Blocks != nil && vc.W.inRepo(callee) && vc.depth < 3 && !hasLoop(callee) && callee != vc.Fn {
		vc.inlined[name] = true
		return vc.inline(st, callee, free, args, resT)
	}
	return vc.havocCall(st, name, args, resT, callee.Blocks != nil || !vc.W.pureFuncs[name])
}

func hasLoop(fn *ssa.Function) bool {
	for _, b := range fn.Blocks {
		for _, s := range b.Succs {
			if s.Dominates(b) {
				return true
			}
		}
	}
	return false
}

// havocCall: unknown callee. The result is unconstrained; when the callee may write memory
// reachable from its arguments, every heap array is havocked (sound, and makes later proofs about the heap fail rather than pass).
func (vc *VC) havocCall(st *State, name string, args []Val, resT types.Type, mayWrite bool) Val {
	vc.havocked[name] = true
	if vc.W.pureFuncs[name] || vc.W.isPure(name) {
		mayWrite = false
	}
	if mayWrite {
		touches := false
		for _, a := range args {
			if a.K == KSlice || a.K == KAddr || (a.K == KInt && a.T != nil && isPointerLike(a.T)) {
				touches = true
			}
		}
		if touches {
			if vc.W.strictHavoc {
				panic(unsupported("call to %s (no contract) with pointer arguments", name))
			}
			al := vc.fresh("alloc", "Int")
			for _, n := range vc.arrayOrd {
				if strings.HasPrefix(n, "G_") {
					continue
				}
				st.heap[n] = vc.fresh("Hhavoc_"+n, vc.arrays[n])
				vc.noteWrite(n, "")
				vc.refBound(n, st.heap[n], al)
			}
			st.assume(vc, Ge(al, st.alloc))
			st.alloc = al
		}
	}
	if resT == nil {
		return Val{K: KUnit}
	}
	if tup, ok := resT.(*types.Tuple); ok && tup.Len() == 0 {
		return Val{K: KUnit}
	}
	r := vc.freshVal("ret_"+sanitize(lastSeg(name)), resT)
	// results may be freshly allocated objects
	al := vc.fresh("alloc", "Int")
	st.assume(vc, Ge(al, st.alloc))
	st.alloc = al
	st.assume(vc, vc.valid(st, r))
	return r
}

func lastSeg(s string) string {
	if i := strings.LastIndexAny(s, "./"); i >= 0 {
		return s[i+1:]
	}
	return s
}

// inline executes a loop-free callee inside the caller's state.
func (vc *VC) inline(st *State, callee *ssa.Function, free []Val, args []Val, resT types.Type) Val {
	sub := &inlineCtx{vc: vc, fn: callee}
	vc.depth++
	defer func() { vc.depth-- }()
	return sub.run(st, free, args, resT)
}

type inlineCtx struct {
	vc *VC
	fn *ssa.Function
}

func (ic *inlineCtx) run(st *State, free []Val, args []Val, resT types.Type) Val {
	vc := ic.vc
	fn := ic.fn
	for i, p := range fn.Params {
		vc.vals[p] = args[i]
	}
	for i, fv := range fn.FreeVars {
		if i < len(free) {
			vc.vals[fv] = free[i]
		}
	}
	// escape analysis for the callee's allocs
	savedFn := vc.Fn
	vc.Fn = fn
	vc.escapeAnalysis()
	vc.Fn = savedFn
	rets := vc.execBlocks(fn, st, nil)
	if len(rets) == 0 {
		// callee never returns (always panics): the path dies
		st.pc = F
		st.dead = true
		if resT == nil {
			return Val{K: KUnit}
		}
		return vc.freshVal("dead", resT)
	}
	var sts []*State
	for _, r := range rets {
		sts = append(sts, r.st)
	}
	m := vc.mergeStates("ret_"+fn.Name(), sts)
	// callee locals are dead
	for _, b := range fn.Blocks {
		for _, in := range b.Instrs {
			if a, ok := in.(*ssa.Alloc); ok {
				delete(m.locals, a)
			}
		}
	}
	// caller locals: keep those of the caller state (callee cannot touch them except through captured addresses)
	for k, v := range st.locals {
		if _, ok := m.locals[k]; !ok {
			m.locals[k] = v
		}
	}
	*st = *m
	nres := fn.Signature.Results().Len()
	if nres == 0 {
		return Val{K: KUnit}
	}
	conds := make([]string, len(rets))
	for i, r := range rets {
		conds[i] = r.st.pc
	}
	outs := make([]Val, nres)
	for j := 0; j < nres; j++ {
		col := make([]Val, len(rets))
		for i, r := range rets {
			col[i] = r.vals[j]
		}
		outs[j] = mergeVals(vc, "r_"+fn.Name(), conds, col)
	}
	if nres == 1 {
		return outs[0]
	}
	return Val{K: KTuple, T: resT, Fs: outs}
}

func (vc *VC) builtin(st *State, b *ssa.Builtin, c *ssa.CallCommon, resT types.Type, pos token.Pos) Val {
	arg := func(i int) Val { return vc.get(st, c.Args[i]) }
	switch b.Name() {
	case "len":
		v := arg(0)
		t := c.Args[0].Type()
		switch {
		case isString(t):
			return IntV(app("slen", v.S), types.Typ[types.Int])
		case v.K == KSlice:
			return IntV(v.Len, types.Typ[types.Int])
		}
		if arr, ok := isArrayT(derefType(t)); ok {
			return IntV(numI(arr.Len()), types.Typ[types.Int])
		}
		if mt, ok := t.Underlying().(*types.Map); ok {
			// the number of keys: mapcard of the key set, an uninterpreted function with two facts: an empty count means no key
			// is present, and a set with a key added is not empty (a nil map has no keys)
			dom, _, _ := vc.mapHeap(mt)
			d := vc.heapGet(st, dom, "(Array Int (Array Int Bool))")
			vc.declareFun("mapcard", []string{"(Array Int Bool)"}, "Int")
			vc.axiom("mapcard", "(forall ((s (Array Int Bool)) (k Int)) (! (and (>= (mapcard s) 0) (=> (= (mapcard s) 0) (not (select s k)))) :pattern ((mapcard s) (select s k))))")
			vc.axiom("mapcard2", "(forall ((s (Array Int Bool)) (k Int)) (! (> (mapcard (store s k true)) 0) :pattern ((mapcard (store s k true)))))")
			n := vc.name("maplen", "Int", Ite(Eq(v.S, "0"), "0", app("mapcard", Sel(d, v.S))))
			st.assume(vc, Ge(n, "0"))
			return IntV(n, types.Typ[types.Int])
		}
		if _, ok := t.Underlying().(*types.Chan); ok {
			n := vc.fresh("chanlen", "Int")
			st.assume(vc, Ge(n, "0"))
			return IntV(n, types.Typ[types.Int])
		}
		panic(unsupported("len of %s", t))
	case "cap":
		v := arg(0)
		if v.K == KSlice {
			return IntV(v.Cap, types.Typ[types.Int])
		}
		if arr, ok := isArrayT(derefType(c.Args[0].Type())); ok {
			return IntV(numI(arr.Len()), types.Typ[types.Int])
		}
		n := vc.fresh("cap", "Int")
		st.assume(vc, Ge(n, "0"))
		return IntV(n, types.Typ[types.Int])
	case "append":
		s := arg(0)
		add := arg(1)
		return vc.builtinAppend(st, s, add, isString(c.Args[1].Type()), c.Args[0].Type())
	case "copy":
		dst := arg(0)
		src := arg(1)
		et := c.Args[0].Type().Underlying().(*types.Slice).Elem()
		return vc.builtinCopy(st, dst, src, isString(c.Args[1].Type()), et)
	case "delete":
		m := arg(0)
		mt := c.Args[0].Type().Underlying().(*types.Map)
		dom, _, _ := vc.mapHeap(mt)
		d := vc.heapGet(st, dom, "(Array Int (Array Int Bool))")
		vc.heapSet(st, dom, "(Array Int (Array Int Bool))", Sto(d, m.S, Sto(Sel(d, m.S), mapKeyTerm(arg(1)), F)))
		return Val{K: KUnit}
	case "print", "println":
		return Val{K: KUnit}
	case "min", "max":
		a, bb := arg(0), arg(1)
		if b.Name() == "min" {
			return IntV(Ite(Le(a.S, bb.S), a.S, bb.S), resT)
		}
		return IntV(Ite(Ge(a.S, bb.S), a.S, bb.S), resT)
	case "ssa:wrapnilchk":
		return arg(0)
	case "ssa:deferstack":
		return IntV("0", resT)
	case "close":
		return Val{K: KUnit}
	case "panic":
		panic(unsupported("panic as call"))
	}
	panic(unsupported("builtin %s", b.Name()))
}

// applyContract: modular call. requires become obligations, modifies is havocked, ensures are assumed.
func (vc *VC) applyContract(st *State, con *Contract, name string, args []Val, pnames []string, resT types.Type, pos token.Pos) Val {
	if cv, ok := vc.W.DB.CallerView[con.FullKey()]; ok {
		con = cv
	}
	vc.usedCons[con.FullKey()] = true
	vars := map[string]Val{}
	for i, n := range pnames {
		if i < len(args) {
			vars[n] = args[i]
		}
	}
	var pkg *types.Package
	if p := vc.W.pkgByPath(con.Pkg); p != nil {
		pkg = p
	}
	pre := st.clone()
	env := &Env{vc: vc, st: st, old: pre, vars: vars, pkg: pkg, what: "contract of " + name, freshBase: pre.alloc}
	short := lastSeg(strings.ReplaceAll(con.Key, ").", "."))
	short = sanitizeKeepDot(con.Key)
	site := vc.count("call@" + short)
	for _, cl := range con.Of("requires") {
		g := vc.specBool(env, cl)
		vc.addObl("pre", fmt.Sprintf("pre@%s#%d.%d", short, site, cl.Index), st, g, pos, nil, "precondition of "+name+": "+cl.Text)
		st.assume(vc, g)
	}
	// caller-side protocol obligations on this callee ("callsite" clauses of the function under contract)
	if vc.depth == 0 && vc.Con != nil {
		for _, cl := range vc.Con.Of("callsite") {
			if cl.Name != short && cl.Name != lastSeg(short) {
				continue
			}
			cenv := vc.funcEnvAt(st, pos)
			// "cur": the index of the element being processed by the innermost enclosing range loop
			var inner *LoopInfo
			for _, li := range vc.loopList {
				if li.Body[vc.curBlock] && li.rangeIdx != nil && (inner == nil || len(li.Body) < len(inner.Body)) {
					inner = li
				}
			}
			if inner != nil {
				if v, ok := st.locals[inner.rangeIdx]; ok {
					cenv.vars["cur"] = IntV(v.S, types.Typ[types.Int])
				}
			}
			for k, v := range vars {
				cenv.vars[k] = v
			}
			g := vc.specBool(cenv, cl)
			vc.addObl("site", fmt.Sprintf("site@%s#%d.%d", short, site, cl.Index), st, g, pos, cl.Tags, "call-site obligation on "+name+": "+cl.Text)
		}
	}
	// the callee's declared panic conditions must be excluded here, or be among the caller's own declared ones
	for _, cl := range con.Of("panics-when") {
		pw := vc.specBool(env, cl)
		var allowed []string
		if vc.depth == 0 && vc.Con != nil {
			cenv := vc.entryEnv(vc.entry.clone())
			for _, ccl := range vc.Con.Of("panics-when") {
				allowed = append(allowed, vc.specBool(cenv, ccl))
			}
		}
		g := Or(append([]string{Not(pw)}, allowed...)...)
		vc.addObl("pre", fmt.Sprintf("pre@%s#%d.p%d", short, site, cl.Index), st, g, pos, nil, "callee "+name+" panics when "+cl.Text)
		st.assume(vc, Not(pw))
	}
	// havoc the callee's frame
	ms := vc.evalModifies(env, con.Of("modifies"))
	if !con.Has("modifies") && !con.Trusted {
		// a contract in /repo without a modifies clause is verified without frame checking: its callers must assume that
		// anything may have been written
		ms.All = true
	}
	vc.havocModSet(st, pre, ms, true)
	// the callee may allocate
	al := vc.fresh("alloc", "Int")
	st.assume(vc, Ge(al, st.alloc))
	st.alloc = al
	// results
	var res Val
	var outs []Val
	if resT != nil {
		if tup, ok := resT.(*types.Tuple); ok {
			for i := 0; i < tup.Len(); i++ {
				outs = append(outs, vc.freshVal("r_"+sanitize(short), tup.At(i).Type()))
			}
			res = Val{K: KTuple, T: resT, Fs: outs}
			if tup.Len() == 0 {
				res = Val{K: KUnit}
			}
		} else {
			res = vc.freshVal("r_"+sanitize(short), resT)
			outs = []Val{res}
		}
	} else {
		res = Val{K: KUnit}
	}
	for _, o := range outs {
		st.assume(vc, vc.valid(st, o))
	}
	env.st = st
	vc.bindResults(env, con, outs, name)
	for _, cl := range con.Of("ensures") {
		st.assume(vc, vc.specBool(env, cl))
	}
	// crash-invariant: the repository invariant must hold right after every store-mutating call
	if len(ms.Ghost) > 0 && vc.depth == 0 && vc.Con != nil {
		cenv := vc.funcEnvAt(st, pos)
		k := vc.count("crash@" + short)
		for _, cl := range vc.Con.Of("crash-invariant") {
			g := vc.specBool(cenv, cl)
			vc.addObl("crash", fmt.Sprintf("crash@%s#%d.%d", short, k, cl.Index), st, g, pos, cl.Tags, "state after "+name+" must satisfy "+cl.Text)
		}
	}
	return res
}

func sanitizeKeepDot(s string) string {
	s = strings.NewReplacer("(", "", ")", "", "*", "").Replace(s)
	return s
}

// bindResults binds result names: result (single), result0.., and the callee's named results when known.
func (vc *VC) bindResults(env *Env, con *Contract, outs []Val, name string) {
	if len(outs) == 1 {
		env.vars["result"] = outs[0]
	}
	for i, o := range outs {
		env.vars[fmt.Sprintf("result%d", i)] = o
	}
	if sig := vc.W.signatureOf(name); sig != nil {
		for i := 0; i < sig.Results().Len() && i < len(outs); i++ {
			if n := sig.Results().At(i).Name(); n != "" && n != "_" {
				if _, clash := env.vars[n]; !clash {
					env.vars[n] = outs[i]
				}
			}
		}
		// conventional names for unnamed error results
		if k := sig.Results().Len(); k > 0 && k == len(outs) && isErrorType(sig.Results().At(k-1).Type()) {
			if _, has := env.vars["err"]; !has {
				env.vars["err"] = outs[k-1]
			}
		}
	}
}

func (vc *VC) specBool(env *Env, cl *Clause) (res string) {
	defer func() {
		if r := recover(); r != nil {
			if se, ok := r.(SpecError); ok {
				panic(unsupported("%s:%d: %s", cl.File, cl.Line, se.Msg))
			}
			panic(r)
		}
	}()
	vc.specDepth++
	defer func() { vc.specDepth-- }()
	return env.evalBool(cl.Text)
}

// evalModifies interprets modifies clauses in an environment.
func (vc *VC) evalModifies(env *Env, cls []*Clause) *ModSet {
	ms := &ModSet{Fields: map[string][]string{}, Ghost: map[string]bool{}}
	vc.specDepth++
	defer func() { vc.specDepth-- }()
	for _, cl := range cls {
		for _, item := range splitTop(cl.Text, ",") {
			item = strings.TrimSpace(item)
			if item == "" {
				continue
			}
			func() {
				defer func() {
					if r := recover(); r != nil {
						if se, ok := r.(SpecError); ok {
							panic(unsupported("%s:%d: modifies %s: %s", cl.File, cl.Line, item, se.Msg))
						}
						panic(r)
					}
				}()
				vc.addModItem(env, ms, item)
			}()
		}
	}
	return ms
}

func (vc *VC) addModItem(env *Env, ms *ModSet, item string) {
	if item == "nothing" {
		return
	}
	if item == "*" || item == "everything" {
		ms.All = true
		return
	}
	if strings.HasPrefix(item, "ghost ") {
		ms.Ghost[strings.TrimSpace(item[6:])] = true
		return
	}
	if d, ok := vc.W.DB.Defs[item]; ok && d.Kind == "ghostvar" {
		ms.Ghost[item] = true
		return
	}
	if strings.HasPrefix(item, "heap(") && strings.HasSuffix(item, ")") {
		// heap(T): any element of any []T may be written (the whole element heap of T)
		tn := strings.TrimSpace(item[5 : len(item)-1])
		key := tn
		switch tn {
		case "byte", "uint8":
			key = "u8"
		}
		if ms.Families == nil {
			ms.Families = map[string]bool{}
		}
		ms.Families["E_"+key] = true
		return
	}
	if strings.HasPrefix(item, "region(") && strings.HasSuffix(item, ")") {
		r := env.eval(item[7 : len(item)-1])
		rid := r.S
		if r.K == KSlice {
			// region(s) for a slice s: the whole backing array (also beyond len: append in place)
			rid = r.Reg
		}
		fam := ""
		inner := strings.TrimSpace(item[7 : len(item)-1])
		if strings.HasPrefix(inner, "bufreg(") {
			fam = "E_u8" // the region of a byte buffer: only the byte heap has anything there
		} else if r.K == KSlice && r.T != nil {
			if sl, ok := r.T.Underlying().(*types.Slice); ok {
				fam = "E_" + typeKey(sl.Elem())
			}
		}
		ms.Regions = append(ms.Regions, modRegion{rid, "(- 4611686018427387904)", "4611686018427387904", fam})
		return
	}
	if strings.HasPrefix(item, "output(") && strings.HasSuffix(item, ")") {
		r := env.eval(item[7 : len(item)-1])
		ms.Outputs = append(ms.Outputs, r.S)
		return
	}
	if strings.HasPrefix(item, "stream(") && strings.HasSuffix(item, ")") {
		r := env.eval(item[7 : len(item)-1])
		ms.Streams = append(ms.Streams, r.S)
		return
	}
	if item == "allocated" {
		return // the allocation counter is always updated exactly
	}
	if strings.HasSuffix(item, ".*") {
		// all fields of an object
		p := env.eval(item[:len(item)-2])
		et := derefType(p.T)
		ms.Fields["F_"+typeKey(et)] = append(ms.Fields["F_"+typeKey(et)], p.S)
		return
	}
	if strings.HasPrefix(item, "*") {
		p := env.eval(item[1:])
		if p.K == KAddr {
			if p.A.Kind == ABox {
				ms.Boxes = append(ms.Boxes, p.A.Obj)
			}
			return
		}
		et := derefType(p.T)
		if isStructT(et) {
			ms.Fields["F_"+typeKey(et)] = append(ms.Fields["F_"+typeKey(et)], p.S)
		} else {
			ms.Boxes = append(ms.Boxes, p.S)
		}
		return
	}
	// x.f : a field;  b / b[lo:hi] : contents of a slice window
	if i := strings.LastIndex(item, "."); i > 0 && !strings.HasSuffix(item, "]") && !strings.HasSuffix(item, ")") {
		base := env.eval(item[:i])
		fname := item[i+1:]
		if base.K == KInt && base.T != nil && isStructT(derefType(base.T)) {
			et := derefType(base.T)
			stt := et.Underlying().(*types.Struct)
			for k := 0; k < stt.NumFields(); k++ {
				if stt.Field(k).Name() == fname {
					key := "F_" + typeKey(et) + "_" + sanitize(fname)
					ms.Fields[key] = append(ms.Fields[key], base.S)
					return
				}
			}
		}
	}
	v := env.eval(item)
	if v.K == KSlice {
		fam := ""
		if v.T != nil {
			if sl, ok := v.T.Underlying().(*types.Slice); ok {
				fam = "E_" + typeKey(sl.Elem())
			}
		}
		ms.Regions = append(ms.Regions, modRegion{v.Reg, v.Off, Add(v.Off, v.Cap), fam})
		return
	}
	if v.K == KInt && v.T != nil {
		if arr, ok := isArrayT(derefType(v.T)); ok {
			ms.Regions = append(ms.Regions, modRegion{v.S, "0", numI(arr.Len()), "E_" + typeKey(arr.Elem())})
			return
		}
	}
	panic(specErr("cannot interpret modifies item %q", item))
}

// havocModSet replaces the contents of the locations in ms by fresh values, keeping everything else.
func (vc *VC) havocModSet(st *State, pre *State, ms *ModSet, allowFreshWrites bool) {
	if ms.All {
		for _, n := range vc.arrayOrd {
			if strings.HasPrefix(n, "G_") && !ms.Ghost[n[2:]] {
				if n != "G_allocated" {
					continue
				}
			}
			st.heap[n] = vc.fresh("Hc_"+n, vc.arrays[n])
		}
		return
	}
	for _, g := range sortedKeys(ms.Ghost) {
		n := "G_" + g
		if sort, ok := vc.arrays[n]; ok {
			st.heap[n] = vc.fresh("Hc_"+n, sort)
		} else if vc.dry {
			if d, ok := vc.W.DB.Defs[g]; ok {
				vc.heapGet(st, n, specSort(d.Sorts[0]))
				st.heap[n] = vc.fresh("Hc_"+n, specSort(d.Sorts[0]))
			}
		}
	}
	if len(ms.Outputs) > 0 {
		wl := vc.heapGet(st, "G_wlen", "(Array Int Int)")
		wd := vc.heapGet(st, "G_wdata", "(Array Int (Array Int Int))")
		for _, w := range ms.Outputs {
			nl := vc.fresh("wlen", "Int")
			old := vc.name("oldw", "(Array Int Int)", Sel(wd, w))
			na := vc.fresh("wd", "(Array Int Int)")
			cur := vc.name("wl", "Int", Sel(wl, w))
			st.assume(vc, Le(cur, nl))
			// bytes already written never change
			vc.define(fmt.Sprintf("(forall ((i Int)) (! (=> (< i %s) (= (select %s i) (select %s i))) :pattern ((select %s i))))", cur, na, old, na))
			wl = Sto(wl, w, nl)
			wd = Sto(wd, w, na)
		}
		vc.heapSet(st, "G_wlen", "(Array Int Int)", wl)
		vc.heapSet(st, "G_wdata", "(Array Int (Array Int Int))", wd)
	}
	if len(ms.Streams) > 0 {
		vc.streamDecls()
		g := vc.heapGet(st, "G_pos", "(Array Int Int)")
		for _, r := range ms.Streams {
			np := vc.fresh("pos", "Int")
			st.assume(vc, And(Le(Sel(g, r), np), Le(np, app("streamLen", r))))
			g = Sto(g, r, np)
		}
		vc.heapSet(st, "G_pos", "(Array Int Int)", g)
	}
	// the allocation counter ghost may grow
	if _, ok := vc.arrays["G_allocated"]; ok {
		old := vc.heapGet(st, "G_allocated", "Int")
		na := vc.fresh("Hc_G_allocated", "Int")
		st.heap["G_allocated"] = na
		st.assume(vc, Ge(na, old))
	}
	for _, n := range vc.arrayOrd {
		sort := vc.arrays[n]
		switch {
		case strings.HasPrefix(n, "F_"):
			var objs []string
			for _, k := range sortedFieldKeys(ms.Fields) {
				if n == k || strings.HasPrefix(n, k+"_") {
					objs = append(objs, ms.Fields[k]...)
				}
			}
			if len(objs) == 0 {
				continue
			}
			h := vc.heapGet(st, n, sort)
			for _, o := range objs {
				es := "Int"
				if strings.HasSuffix(sort, "Bool)") {
					es = "Bool"
				}
				h = Sto(h, o, vc.fresh("hv", es))
			}
			vc.heapSet(st, n, sort, h)
		case strings.HasPrefix(n, "P_"):
			if len(ms.Boxes) == 0 {
				continue
			}
			h := vc.heapGet(st, n, sort)
			for _, o := range ms.Boxes {
				es := "Int"
				if strings.HasSuffix(sort, "Bool)") {
					es = "Bool"
				}
				h = Sto(h, o, vc.fresh("hv", es))
			}
			vc.heapSet(st, n, sort, h)
		case strings.HasPrefix(n, "E_") && familyOf(ms, n):
			st.heap[n] = vc.fresh("Hfam_"+n, sort)
			vc.noteWrite(n, "")
		case strings.HasPrefix(n, "E_"):
			if len(ms.Regions) == 0 {
				continue
			}
			h := vc.heapGet(st, n, sort)
			inner := sort[len("(Array Int ") : len(sort)-1]
			for _, m := range ms.Regions {
				if m.Elem != "" && n != m.Elem && !strings.HasPrefix(n, m.Elem+"_") {
					continue
				}
				old := vc.name("old", inner, Sel(h, m.Reg))
				na := vc.fresh("hv", inner)
				vc.define(fmt.Sprintf("(forall ((i Int)) (! (=> (not (and (<= %s i) (< i %s))) (= (select %s i) (select %s i))) :pattern ((select %s i))))", m.Lo, m.Hi, na, old, na))

				h = vc.forceName("H_"+n, sort, Sto(h, m.Reg, na))
				vc.noteWrite(n, Sto("x", m.Reg, "y"))
			}
			st.heap[n] = h
		}
	}
}

func (vc *VC) define(fact string) {
	vc.addAssert(fact)
}

func sortedFieldKeys(m map[string][]string) []string {
	var out []string
	for k := range m {
		out = append(out, k)
	}
	sort.Strings(out)
	return out
}

func familyOf(ms *ModSet, n string) bool {
	for f := range ms.Families {
		if n == f || strings.HasPrefix(n, f+"_") {
			return true
		}
	}
	return false
}
