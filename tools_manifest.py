#!/usr/bin/env python3
# regenerates MANIFEST.json from the claims table below (kept in one place so MANIFEST stays valid)
import json, subprocess
props=[json.loads(l) for l in open('/verif/properties.jsonl')]
hooks=subprocess.run(['git','-C','/repo','log','--format=%h %s'],capture_output=True,text=True).stdout.strip().split('\n')
hook_commits=[l.split()[0] for l in hooks if l.split(' ',1)[1].startswith('verif:')]
claims=json.load(open('/verif/claims.json'))
m={"version":1,
 "setup_cmd":"cd /verif/engine && GOFLAGS=-mod=mod GOPROXY=off GOSUMDB=off GOTOOLCHAIN=local go build -o /verif/bin/govc ./cmd/govc",
 "hooks":{"guard":"verif","enable":"the guarded files are comment-only */contracts_verif.go (//go:build verif); /verif/bin/govc loads /repo with -tags verif and reads the //@ contracts from them",
   "baseline_off_cmd":"for m in $(cat /w/out/gomods.txt); do MF=$(cd /repo/$m && . /w/out/goenv.sh && gomodflag); (cd /repo/$m && go test $MF -json -vet=off -count=1 -timeout 25m ./...); done",
   "source_commits":hook_commits,"add_only":True},
 "engines":[{"name":"govc","path":"/verif/engine","serves_properties":sorted(claims['claimed'].keys()),"kind_free_text":"contract-based deductive verifier for Go written for this task: symbolic execution of go/ssa (naive form) of the real functions in /repo against //@ contracts (requires/ensures/modifies/loop invariants/variants/crash-invariants) kept in /repo/**/contracts_verif.go; exact machine arithmetic; obligations discharged by z3 4.8.12, z3 5.1.0 (two configurations) and cvc5 1.0.3 raced; counterexamples replayed on the real code with go test -overlay"}],
 "checks":[],"not_applicable":[],"notes":"DESIGN.md describes the approach, per-property scope, trusted base, findings and which checks catch which seeded changes."}
for pid,c in sorted(claims['claimed'].items()):
    m['checks'].append({"property_id":pid,"quick_cmd":f"/verif/vcheck {pid} quick","thorough_cmd":f"/verif/vcheck {pid} thorough","evidence_file":f"/verif/evidence/{pid}.json",
      "replay_cmd_template":"cat {path}","engine":"govc",
      "level_claimed":{"category":"proof","text":c['text'],"design_ref":"DESIGN.md section 4 "+pid},
      "level_note":c['note'],"technique":"contract-based deductive verification (VCs generated from go/ssa of the real code, discharged by SMT solvers)"})
for p in props:
    if p['id'] not in claims['claimed']:
        m['not_applicable'].append({"property_id":p['id'],"reason":claims['not_applicable'].get(p['id'],"not claimed: contracts for this property are not built (see DESIGN.md section 4)")})
json.dump(m,open('/verif/MANIFEST.json','w'),indent=1)
print('claimed',sorted(claims['claimed']))
