#!/bin/sh
# usage: tools_seedrun.sh <id> [property...] — applies seeded/<id>/patch(.rebased).diff to /repo, runs the checks, reverts
set -u
ID="$1"; shift
PROPS="${*:-$ID}"
P=/verif/seeded/$ID/patch.rebased.diff; [ -f "$P" ] || P=/verif/seeded/$ID/patch.diff
if [ -n "$(git -C /repo status --porcelain)" ]; then echo "/repo not clean"; exit 2; fi
BK=$(mktemp -d /var/tmp/evbk.XXXXXX); cp -r /verif/evidence "$BK/" 2>/dev/null
git -C /repo apply "$P" || { echo "SEED $ID: patch does not apply"; exit 3; }
for p in $PROPS; do
  out=$(/verif/vcheck "$p" quick 2>&1); rc=$?
  echo "SEED $ID prop $p exit=$rc"; echo "$out" | grep -E "^VIOLATION|^property" | cut -c1-260
done
git -C /repo checkout -- .
# evidence committed in /verif must come from the unchanged tree: put back what was there before the seeded run
rm -rf /verif/evidence; cp -r "$BK/evidence" /verif/evidence; rm -rf "$BK"
