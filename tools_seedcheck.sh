#!/bin/sh
# usage: tools_seedcheck.sh <seed dir containing patch.diff meta.json demo> — confirms a seeded change in a scratch worktree of /repo's base commit
set -u
SEED="$1"; BASE="${2:-23c8103}"
export GOFLAGS=-mod=mod GOPROXY=off GOSUMDB=off GOTOOLCHAIN=local
WT=$(mktemp -d /var/tmp/seedwt.XXXXXX); rmdir "$WT"
git -C /repo worktree add -q --detach "$WT" "$BASE" || exit 2
cleanup() { git -C /repo worktree remove --force "$WT" >/dev/null 2>&1; rm -rf "$WT"; }
trap cleanup EXIT
DEMO=$(python3 -c "import json;print(json.load(open('$SEED/meta.json'))['demo_path'])")
RUN=$(python3 -c "import json;print(json.load(open('$SEED/meta.json'))['demo_run'])")
DEMOSRC=$(ls "$SEED"/*_test.go | head -1)
cd "$WT" || exit 2
cp "$DEMOSRC" "$WT/$DEMO"
echo "== demo without change"; (eval "$RUN") >"$WT/.out0" 2>&1; R0=$?; tail -3 "$WT/.out0"
git apply "$SEED/patch.diff" || { echo "PATCH DOES NOT APPLY"; exit 3; }
echo "== build with change"; go build ./... ; B=$?
echo "== demo with change"; (eval "$RUN") >"$WT/.out1" 2>&1; R1=$?; tail -5 "$WT/.out1"
rm -f "$WT/$DEMO"
echo "== suite with change"; go test -vet=off -count=1 ./... >"$WT/.out2" 2>&1; S=$?; grep -v '^ok\|no test files' "$WT/.out2" | tail -5
echo "RESULT seed=$SEED demo_without=$R0 build=$B demo_with=$R1 suite=$S"
