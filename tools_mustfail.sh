#!/bin/sh
# usage: tools_mustfail.sh <property-id>
# Thorough tier only. Runs the must-fail corpus of one property against COPIES of /repo's working tree:
#   - every seeded change of /verif/seeded/*/ recorded as caught for this property (patch.rebased.diff or patch.diff)
#   - every repaired finding of this property with the repair reverted (git show <fix> | patch -R)
# and expects the property's check to report a violation on each. A case whose patch no longer applies is skipped.
# Prints one line per case; exit 0 if every case that applied was detected, exit 3 otherwise (the machinery lost a detection).
set -u
ID="$1"
export GOFLAGS=-mod=mod GOPROXY=off GOSUMDB=off GOTOOLCHAIN=local
BASE=$(mktemp -d /var/tmp/mustfail.XXXXXX)
trap 'rm -rf "$BASE"' EXIT
V="$BASE/verif"; mkdir -p "$V"
ln -s /verif/spec "$V/spec"; cp /verif/obligations.lock /verif/known_findings.json "$V/" 2>/dev/null
cases=0; detected=0; skipped=0; lost=""
run_case() { # name, patchfile, reverse(0/1)
  name="$1"; pf="$2"; rev="$3"
  WT="$BASE/repo"; rm -rf "$WT"; mkdir -p "$WT"
  rsync -a --exclude .git /repo/ "$WT/"
  if [ "$rev" = 1 ]; then patch -R -p1 -s -f -d "$WT" < "$pf" >/dev/null 2>&1; rc=$?; else patch -p1 -s -f -d "$WT" < "$pf" >/dev/null 2>&1; rc=$?; fi
  if [ $rc -ne 0 ]; then echo "MUST-FAIL $ID $name: skipped (patch does not apply to the current tree)"; skipped=$((skipped+1)); return; fi
  cases=$((cases+1))
  out=$(VERIF_TIER=quick /verif/bin/govc check -repo "$WT" -verif "$V" -prop "$ID" -tier quick -no-replay 2>&1); rc=$?
  if [ $rc -eq 1 ] && echo "$out" | grep -q "^VIOLATION property=$ID "; then
    detected=$((detected+1)); echo "MUST-FAIL $ID $name: detected ($(echo "$out" | grep -c '^VIOLATION') violation lines; first: $(echo "$out" | grep '^VIOLATION' | head -1 | sed 's/.*obligation=\([^ ]*\).*/\1/'))"
  else
    lost="$lost $name"; echo "MUST-FAIL $ID $name: NOT DETECTED (exit $rc)"
  fi
  rm -rf "$WT" "$V/evidence" "$V/replays"
}
for d in /verif/seeded/*/; do
  m="$d/meta.json"; [ -f "$m" ] || continue
  ok=$(python3 - "$m" "$ID" <<'PY'
import json,sys
m=json.load(open(sys.argv[1])); r=m.get('verif_result','')
props=[m.get('property')]+m.get('also_properties',[])
print('1' if r.startswith('caught') and ('VIOLATION '+sys.argv[2]+' ') in r else '0')
PY
)
  [ "$ok" = 1 ] || continue
  pf="$d/patch.rebased.diff"; [ -f "$pf" ] || pf="$d/patch.diff"
  run_case "seed:$(basename "$d")" "$pf" 0
done
python3 - "$ID" > "$BASE/fixes.txt" <<'PY'
import json,sys
seen=set()
for f in json.load(open('/verif/known_findings.json')):
    if f.get('property')==sys.argv[1] and f.get('status')=='fixed' and f.get('commit') and not f['obligation'].startswith('('):
        if f['commit'] not in seen:
            seen.add(f['commit']); print(f['commit'])
PY
while read -r c; do
  [ -n "$c" ] || continue
  git -C /repo show "$c" -- . ':(exclude)*contracts_verif.go' > "$BASE/fix.diff" 2>/dev/null || continue
  run_case "revert:$c" "$BASE/fix.diff" 1
done < "$BASE/fixes.txt"
echo "MUST-FAIL $ID summary: cases=$cases detected=$detected skipped=$skipped"
# record in the evidence of this run
python3 - "$ID" "$cases" "$detected" "$skipped" <<'PY'
import json,sys
p='/verif/evidence/%s.json'%sys.argv[1]
try:
    e=json.load(open(p)); e['coverage']['must_fail_cases']=int(sys.argv[2]); e['coverage']['must_fail_detected']=int(sys.argv[3]); e['coverage']['must_fail_skipped']=int(sys.argv[4])
    json.dump(e,open(p,'w'),indent=1)
except Exception as ex:
    print('evidence not updated:',ex)
PY
[ -z "$lost" ] || { echo "SELFTEST-FAILED property=$ID must-fail cases not detected:$lost"; exit 3; }
exit 0
